#!/bin/sh
# For every seeded change: apply to /repo, run the property's quick check, undo. Prints one line each.
# Never leaves /repo modified.
cd /verif || exit 2
for d in seeded/*/; do
    [ -f "$d/patch.diff" ] || continue
    id=$(python3 -c "import json,sys; print(json.load(open('$d/meta.json'))['property'])")
    if ! git -C /repo apply --check "$PWD/$d/patch.diff" 2>/dev/null; then echo "$d: patch does not apply"; continue; fi
    git -C /repo apply "$PWD/$d/patch.diff"
    out=$(WTSIM_VERIF_DIR=/tmp/seeded-check bin/check "$id" quick 2>&1); rc=$?
    git -C /repo checkout -- . 
    cls=$(echo "$out" | grep -o 'class=[^ ]*' | head -3 | tr '\n' ' ')
    echo "$d property=$id exit=$rc $cls"
done
rm -rf /tmp/seeded-check
