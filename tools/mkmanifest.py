#!/usr/bin/env python3
"""Regenerates /verif/MANIFEST.json from the table below (one entry per claimed property)."""
import json

SIM = "deterministic simulation with fault injection"
CHECKS = {
 "C01": ("Seeded deterministic simulation of real client<->server sessions over an in-memory network with loss/duplication/reordering/corruption; every stream's bytes compared with a keyed pattern to end-of-stream (read / read_exact / tokio traits / BiStream, write / write_all / vectored writes); plus a scripted raw peer that cuts the stream preamble into pieces, with silences and non-zero session ids. Sampling, not proof.",
         "quinn/rustls/tokio run for real but are trusted; current-thread runtime only; fault-killed runs are inconclusive",
         SIM + " (seeded schedules + network faults, byte-exact stream oracle)"),
 "C03": ("Seeded deterministic simulation of real client<->server datagram traffic under loss/duplication/reordering, sweep of the peer's datagram limit grid, size-contract probes with no await between query and send, the same probes repeated after path-MTU discovery has moved the limit, a raw peer that forces 2- and 4-byte quarter stream ids, and a raw peer that mixes datagrams of other sessions in while the application is waiting or busy; sub-multiset oracle. Sampling, not proof.",
         "datagram oracle is inclusion under loss; 8-byte quarter ids unreachable in situ; quinn/rustls/tokio trusted",
         SIM + " (network faults + peer transport limits as configuration faults, multiset oracle)"),
 "C05": ("Seeded deterministic simulation with a scripted raw peer that controls segmentation: exhaustive sweep of every single cut position of SETTINGS / CONNECT HEADERS / close capsule x every interleaved event x both roles, plus sampled multi-cut runs with short-read caps; metamorphic oracle (outcome must equal the unsegmented exchange).",
         "current-thread runtime only; raw peer + reference codec are harness code; hook counters are coverage only",
         SIM + " (peer-controlled segmentation x interleaved events, metamorphic oracle)"),
 "C07": ("Seeded deterministic simulation with a scripted raw QUIC peer that stalls streams at every preamble position (and leaves surplus CONNECT requests, unread datagrams or a full default-size window of unread data behind); bounded-liveness oracle for healthy streams, datagrams and session close. Sampling, not proof.",
         "raw peer + reference codec are harness code; liveness judged on a fault-free simulated network; current-thread runtime only",
         SIM + " (peer stalls as faults, bounded-liveness oracle)"),
}
EXTRA = {}
try:
    exec(open('/verif/tools/manifest_extra.py').read())
except FileNotFoundError:
    pass
CHECKS.update(EXTRA)

NA = [
 ("C11", "pure functions of the input bytes: no schedule, clock, fault or second party in the statement (panics reached in situ through the running driver are reported under C12/C13/C09)"),
 ("C14", "pure encode/decode inverse law over values: nothing for a simulator to schedule or fault (wire bytes are still cross-checked by C16's independent decoder)"),
 ("C19", "pure conversions plus an un-faulted local file round trip; no seam and no fault semantics claimed"),
]

checks = []
for pid in sorted(CHECKS):
    text, note, tech = CHECKS[pid]
    checks.append({
        "property_id": pid,
        "quick_cmd": f"bin/check {pid} quick",
        "thorough_cmd": f"bin/check {pid} thorough",
        "evidence_file": f"/verif/evidence/{pid}.json",
        "replay_cmd_template": "bin/replay {path}",
        "engine": "wtsim",
        "level_claimed": {"category": "exploration", "text": text, "design_ref": f"DESIGN.md §5 {pid}"},
        "level_note": note,
        "technique": tech,
    })
m = {
 "version": 1,
 "setup_cmd": "cd /verif/sim && CARGO_NET_OFFLINE=true cargo build --release --offline",
 "hooks": {
   "guard": "--cfg wtransport_verif",
   "enable": "RUSTFLAGS=\"--cfg tokio_unstable --cfg wtransport_verif\" (set in /verif/sim/.cargo/config.toml); the simulator depends on /repo/wtransport and /repo/wtransport-proto by path, so every check rebuilds from /repo's working tree",
   "baseline_off_cmd": "cd /repo && cargo test --workspace --no-fail-fast --offline",
   "source_commits": ["e6b4f50", "d4dd67c", "f45d29f"],
   "add_only": True,
 },
 "engines": [{
   "name": "wtsim", "path": "/verif/sim/wtsim",
   "serves_properties": [c["property_id"] for c in checks],
   "kind_free_text": "deterministic discrete-event simulator: real wtransport+quinn+rustls on a paused-clock current-thread tokio runtime over an in-memory UDP seam, seeded fault schedules, raw scripted peer with independent reference codec, plan minimisation and replay files",
 }],
 "checks": checks,
 "notes": "All checks: exit 0 = held on everything explored; exit 1 + 'VIOLATION property=<id> replay=<path>'; exit 2 = harness error and no violation (a violation is only reported when its replay file reproduced in a fresh process; when one did, the exit code is 1 even if the batch also had a harness-level problem). VERIF_SEED selects the base seed (default 20260922). known_findings.json lists recorded defects; 'fixed:' entries there suppress nothing.",
 "not_applicable": [{"property_id": p, "reason": r} for p, r in NA if p not in CHECKS],
}
json.dump(m, open('/verif/MANIFEST.json', 'w'), indent=1)
print("claimed:", [c["property_id"] for c in checks])
