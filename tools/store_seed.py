#!/usr/bin/env python3
"""usage: store_seed.py <dest name> <property> <worktree> <needs...> -- stores a confirmed seeded change and
runs the property's quick check (plus optional extra checks) against it to record which class reports it."""
import sys, os, shutil, subprocess, json, re
dest, prop, wt, needs = sys.argv[1], sys.argv[2], sys.argv[3], sys.argv[4]
extra = sys.argv[5:]  # extra property ids to run as well
d = f"/verif/seeded/{dest}"
os.makedirs(d, exist_ok=True)
for f in os.listdir(f"{wt}/SEEDED"):
    src = f"{wt}/SEEDED/{f}"
    if os.path.isfile(src) and os.path.getsize(src) < 400_000 and not f.endswith('.log'):
        shutil.copy(src, d)
patch = f"{d}/patch.diff"
subprocess.check_call(["git", "-C", "/repo", "apply", "--check", patch])
subprocess.check_call(["git", "-C", "/repo", "apply", patch])
caught = {}
try:
    for p in [prop] + extra:
        r = subprocess.run(["bin/check", p, "quick"], cwd="/verif", capture_output=True, text=True, env=dict(os.environ, WTSIM_VERIF_DIR="/tmp/seeded-check"))
        classes = sorted(set(re.findall(r"class=(\S+)", r.stdout)))
        caught[p] = {"exit": r.returncode, "classes": classes}
finally:
    subprocess.check_call(["git", "-C", "/repo", "checkout", "--", "."])
shutil.rmtree("/tmp/seeded-check", ignore_errors=True)
meta = {
    "property": prop,
    "breaks": open(f"/tmp/wt/prop_{prop}.txt").readline().strip(),
    "needs_to_manifest": needs,
    "confirmed": "tools/confirm_seed.sh in the agent's scratch worktree: demo passes without the patch, fails with it; `cargo test --workspace --offline` (76 tests + doctests) passes with the patch",
    "demo": "place demo_break.rs in wtransport/tests/ and run: cargo test --offline -p wtransport --features quinn,dangerous-configuration,self-signed --test demo_break -- --test-threads=1",
    "detected_by_quick_checks": caught,
}
json.dump(meta, open(f"{d}/meta.json", "w"), indent=1)
print(json.dumps(caught))
