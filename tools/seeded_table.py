#!/usr/bin/env python3
"""Prints the markdown table of DESIGN.md section 8 from /verif/seeded/*/meta.json."""
import json, os, re
rows = []
for d in sorted(os.listdir('/verif/seeded')):
    m = f'/verif/seeded/{d}/meta.json'
    if not os.path.isfile(m):
        continue
    j = json.load(open(m))
    needs = j['needs_to_manifest']
    missed = 'Not caught by the first version' in needs
    short = needs.split('. Not caught by the first version')[0].split(' Not caught by the first version')[0]
    how = ''
    if missed:
        how = needs[needs.index('Not caught by the first version'):]
        how = how.replace('Not caught by the first version of the check', 'first version missed it').rstrip('.')
    det = []
    for p, r in j['detected_by_quick_checks'].items():
        cl = ', '.join(c.split('/', 1)[1] for c in r['classes'][:4])
        det.append(f"{p}: {cl}" + (' …' if len(r['classes']) > 4 else ''))
    files = sorted(set(re.findall(r'^\+\+\+ b/(\S+)', open(f'/verif/seeded/{d}/patch.diff').read(), re.M)))
    files = ', '.join(f.replace('wtransport-proto/src/', 'proto:').replace('wtransport/src/', 'wt:') for f in files)
    if j.get('detected') is False:
        det = ['**not detected** (outside the simulator)']
    rows.append((d, j['property'], files, short, '; '.join(det), how))
print('| seeded change | files | what it needs to manifest | reported by quick check as | strengthening needed |')
print('|---|---|---|---|---|')
for d, p, files, short, det, how in rows:
    short = short.replace('|', '\\|')
    print(f"| `{d}` | {files} | {short} | {det} | {how or '—'} |")
