#!/bin/bash
# usage: try_seed.sh <patch.diff> <property id>...   — applies a seeded change to /repo, runs the quick checks, reverts
P="$1"; shift
git -C /repo apply "$P" || { echo "PATCH DOES NOT APPLY"; exit 2; }
for id in "$@"; do
  WTSIM_VERIF_DIR=/tmp/try-seed /verif/bin/check "$id" quick 2>&1 | grep -E "VIOLATION|^check|HARNESS|^error" | cut -c1-360 | head -6
done
git -C /repo checkout -- . ; rm -rf /tmp/try-seed
# leave the harness binary built from the clean tree again
(cd /verif/sim && cargo build --release --offline >/dev/null 2>&1)
git -C /repo status --short | head -3
