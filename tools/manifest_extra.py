EXTRA = {
 "C13": ("Seeded deterministic simulation with a scripted raw peer: a valid exchange X and X' = X with unknown / GREASE frames, settings, capsules and uni streams inserted at every legal point (both roles); metamorphic oracle outcome(X') == outcome(X). Sampling, not proof.",
         "raw peer + reference codec are harness code; payloads above the documented 4096 B frame limit excluded (C12's subject); current-thread runtime",
         SIM + " (peer-injected unknown protocol elements as faults, metamorphic oracle)"),
}
