EXTRA = {
 "C13": ("Seeded deterministic simulation with a scripted raw peer: a valid exchange X and X' = X with unknown / GREASE frames, settings, capsules and uni streams inserted at every legal point (both roles); metamorphic oracle outcome(X') == outcome(X). Sampling, not proof.",
         "raw peer + reference codec are harness code; payloads above the documented 4096 B frame limit excluded (C12's subject); current-thread runtime",
         SIM + " (peer-injected unknown protocol elements as faults, metamorphic oracle)"),
 "C12": ("Seeded deterministic simulation with a scripted raw peer: every usable sequence of depth 1-2 of connection-level events (critical streams, control-stream frames, request / response openings, invalid session ids) for both roles, then sampled depth 3-6; the observed CONNECTION_CLOSE code (or continued liveness) is compared with a reference rule table transcribed from RFC 9114 / 9204 / the WebTransport draft. Sampling beyond depth 2.",
         "rule table is hand-transcribed and holds sets where the specifications allow several reactions; raw peer + reference codec are harness code; the sans-IO typestates are additionally compared across decoding paths under C15",
         SIM + " (peer protocol violations as faults, reference-model oracle over event histories)"),
 "C18": ("Seeded deterministic simulation with a scripted raw peer: exhaustive grid of pseudo-header combinations against the real server, every :status integer (0..65535 in the thorough tier) plus malformed strings against the real client, and reserved / near-reserved additional header names through connect(); admission oracle from the property text.",
         "numeric StatusCode constructors are pure and not covered; raw peer + reference codec are harness code",
         SIM + " (peer-supplied malformed requests/responses as faults, admission oracle)"),
}
