#!/usr/bin/env python3
"""Regenerates the table between the seeded-table markers of DESIGN.md from seeded/*/meta.json."""
import subprocess, re
t = subprocess.run(['python3', '/verif/tools/seeded_table.py'], capture_output=True, text=True, check=True).stdout
p = '/verif/DESIGN.md'
s = open(p).read()
s = re.sub(r'<!-- seeded-table-begin -->.*<!-- seeded-table-end -->', lambda m: '<!-- seeded-table-begin -->\n' + t + '<!-- seeded-table-end -->', s, flags=re.S)
open(p, 'w').write(s)
