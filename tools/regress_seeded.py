#!/usr/bin/env python3
"""Applies every stored seeded change to /repo in turn, runs the quick check of the property it
breaks, undoes it, and records exit status and violation classes in the change's meta.json.
Prints one line per change; exits 1 if some change is not reported by its own property's check.
Never leaves /repo modified; rebuilds the harness from the clean tree at the end."""
import json, os, re, subprocess, sys, shutil, signal

def _bail(signum, frame):
    # never leave /repo patched, whatever stops this script
    subprocess.run(['pkill', '-TERM', '-f', 'bin/check'])
    subprocess.run(['git', '-C', '/repo', 'checkout', '--', '.'])
    sys.exit(130)

signal.signal(signal.SIGINT, _bail)
signal.signal(signal.SIGTERM, _bail)
missed = []
for d in sorted(os.listdir('/verif/seeded')):
    mp = f'/verif/seeded/{d}/meta.json'
    if not os.path.isfile(mp):
        continue
    m = json.load(open(mp))
    prop = m['property']
    patch = f'/verif/seeded/{d}/patch.diff'
    if subprocess.run(['git', '-C', '/repo', 'apply', '--check', patch]).returncode != 0:
        print(f'{d}: patch does not apply'); missed.append(d); continue
    subprocess.check_call(['git', '-C', '/repo', 'apply', patch])
    try:
        r = subprocess.run(['bin/check', prop, 'quick'], cwd='/verif', capture_output=True, text=True,
                           env=dict(os.environ, WTSIM_VERIF_DIR='/tmp/seeded-regress'))
    finally:
        subprocess.check_call(['git', '-C', '/repo', 'checkout', '--', '.'])
    classes = sorted(set(re.findall(r'class=(\S+)', r.stdout)))
    m.setdefault('detected_by_quick_checks', {})[prop] = {'exit': r.returncode, 'classes': classes}
    json.dump(m, open(mp, 'w'), indent=1)
    ok = r.returncode == 1 and classes
    expected_miss = m.get('detected') is False
    print(f"{d:6} property={prop} exit={r.returncode} {'CAUGHT' if ok else ('missed (declared out of reach)' if expected_miss else 'MISSED')} {' '.join(classes[:3])}", flush=True)
    if not ok and not expected_miss:
        missed.append(d)
shutil.rmtree('/tmp/seeded-regress', ignore_errors=True)
subprocess.run(['cargo', 'build', '--release', '--offline'], cwd='/verif/sim', capture_output=True)
print('missed:', missed)
sys.exit(1 if missed else 0)
