#!/bin/bash
# usage: confirm_seed.sh <worktree dir> [demo test name]   — independent confirmation of a seeded change
# (1) demo fails with the patch, (2) passes without, (3) existing suite passes with the patch.
WT="$1"; DEMO="${2:-demo_break}"
cd "$WT" || exit 2
FEAT="quinn,dangerous-configuration,self-signed"
P="$WT/SEEDED/patch.diff"
# normalise: start from clean library sources
git stash -q --include-untracked -- wtransport/src wtransport-proto/src 2>/dev/null
git checkout -q -- wtransport/src wtransport-proto/src 2>/dev/null
[ -f "wtransport/tests/$DEMO.rs" ] || cp "SEEDED/$DEMO.rs" "wtransport/tests/$DEMO.rs" 2>/dev/null
echo "== without patch"
timeout 900 cargo test --offline -p wtransport --features $FEAT --test $DEMO -- --test-threads=1 2>&1 | grep -E "^test result|^test .* (FAILED|ok)|error(\[|:)" | head -12
git apply "$P" || { echo "PATCH DOES NOT APPLY"; exit 1; }
echo "== with patch"
timeout 900 cargo test --offline -p wtransport --features $FEAT --test $DEMO -- --test-threads=1 2>&1 | grep -E "^test result|^test .* (FAILED|ok)|error(\[|:)" | head -12
echo "== existing suite with patch (demo moved aside)"
mkdir -p /tmp/wt/_aside && mv wtransport/tests/$DEMO.rs /tmp/wt/_aside/$DEMO.$$.rs
timeout 1800 cargo test --workspace --offline 2>&1 | grep -E "^test result|FAILED|error(\[|:)" | head -8
mv /tmp/wt/_aside/$DEMO.$$.rs wtransport/tests/$DEMO.rs
git diff --stat -- wtransport/src wtransport-proto/src | tail -1
