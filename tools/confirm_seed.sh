#!/bin/bash
# usage: confirm_seed.sh <worktree dir> [demo test name] [proto]   — independent confirmation of a seeded change
# (1) demo passes without the patch, (2) fails with it, (3) existing suite passes with the patch.
# third argument "proto": the demo belongs to wtransport-proto/tests and runs with --features async
WT="$1"; DEMO="${2:-demo_break}"; CRATE=wtransport; FEAT="quinn,dangerous-configuration,self-signed"
if [ "$3" = proto ]; then CRATE=wtransport-proto; FEAT="async"; fi
cd "$WT" || exit 2
P="$WT/SEEDED/patch.diff"
# normalise: start from clean library sources
git stash -q --include-untracked -- wtransport/src wtransport-proto/src 2>/dev/null
git checkout -q -- wtransport/src wtransport-proto/src 2>/dev/null
mkdir -p "$CRATE/tests"
[ -f "$CRATE/tests/$DEMO.rs" ] || cp "SEEDED/$DEMO.rs" "$CRATE/tests/$DEMO.rs"
echo "== without patch"
timeout 1800 cargo test --offline -p $CRATE --features $FEAT --test $DEMO -- --test-threads=1 2>&1 | grep -E "^test result|^test .* (FAILED|ok)|error(\[|:)" | head -12
git apply "$P" || { echo "PATCH DOES NOT APPLY"; exit 1; }
echo "== with patch"
timeout 1800 cargo test --offline -p $CRATE --features $FEAT --test $DEMO -- --test-threads=1 2>&1 | grep -E "^test result|^test .* (FAILED|ok)|error(\[|:)" | head -12
echo "== existing suite with patch (demo moved aside)"
mkdir -p /tmp/wt/_aside && mv $CRATE/tests/$DEMO.rs /tmp/wt/_aside/$DEMO.$$.rs
timeout 2400 cargo test --workspace --offline 2>&1 | grep -E "^test result|FAILED|error(\[|:)" | head -8
mv /tmp/wt/_aside/$DEMO.$$.rs $CRATE/tests/$DEMO.rs
git diff --stat -- wtransport/src wtransport-proto/src | tail -1
