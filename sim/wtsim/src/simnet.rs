//! In-memory datagram network behind quinn's `AsyncUdpSocket` seam.
//!
//! * every datagram sent by a node gets a per-link sequence number; its fate (deliver,
//!   drop, duplicate, reorder, corrupt) is a *stateless* function of
//!   (net seed, src port, dst port, sequence number), never of its content or size, so the
//!   residual entropy of TLS/QUIC (random bytes in packets) cannot influence the schedule;
//! * delivery goes through one event heap ordered by (simulated time, global sequence);
//!   a pump task sleeps on tokio's *paused* clock until the head is due, so simulated time
//!   advances only when every task is idle (discrete-event time);
//! * partitions (directional blocks), black holes, NAT rebinds, inbound stalls are explicit
//!   state changes made by the scenario at simulated instants of its choosing.

use crate::rng::{fnv1a, mix, FNV_INIT};
use serde::{Deserialize, Serialize};
use std::collections::{BinaryHeap, HashMap, HashSet, VecDeque};
use std::fmt::Debug;
use std::io::{self, IoSliceMut};
use std::net::SocketAddr;
use std::pin::Pin;
use std::sync::{Arc, Mutex};
use std::task::{Context, Poll, Waker};
use std::time::Duration;
use tokio::time::Instant;
use wtransport::quinn;
use wtransport::quinn::udp::{RecvMeta, Transmit};

#[derive(Clone, Debug, Serialize, Deserialize, PartialEq)]
pub struct NetCfg {
    pub seed: u64,
    pub lat_min_us: u64,
    pub lat_jitter_us: u64,
    pub drop_pm: u32,
    pub dup_pm: u32,
    pub reorder_pm: u32,
    pub reorder_extra_us: u64,
    pub corrupt_pm: u32,
    /// Random faults only apply to datagrams sent before this simulated instant (µs since
    /// net creation); `None` = for the whole run.
    pub fault_until_us: Option<u64>,
    /// Datagrams (src port, dst port, per-link index) whose random fate is forced to
    /// "deliver" — used by the shrinker to remove faults one by one.
    #[serde(default)]
    pub suppress: Vec<(u16, u16, u64)>,
}

impl NetCfg {
    pub fn clean(seed: u64) -> Self {
        Self {
            seed,
            lat_min_us: 1_000,
            lat_jitter_us: 0,
            drop_pm: 0,
            dup_pm: 0,
            reorder_pm: 0,
            reorder_extra_us: 0,
            corrupt_pm: 0,
            fault_until_us: None,
            suppress: Vec::new(),
        }
    }

    pub fn has_faults(&self) -> bool {
        self.drop_pm + self.dup_pm + self.reorder_pm + self.corrupt_pm > 0
    }
}

#[derive(Clone, Copy, Debug, PartialEq, Eq)]
pub enum Fate {
    Deliver,
    Drop,
    Dup,
    Reorder,
    Corrupt,
}

#[derive(Clone, Debug, Default, Serialize, Deserialize)]
pub struct NetStats {
    pub sent: u64,
    pub delivered: u64,
    pub dropped: u64,
    pub duplicated: u64,
    pub reordered: u64,
    pub inversions: u64,
    pub corrupted: u64,
    pub blocked: u64,
    pub unroutable: u64,
    pub stalled_holds: u64,
    pub rebinds: u64,
    pub bytes: u64,
}

impl NetStats {
    pub fn add(&mut self, o: &NetStats) {
        self.sent += o.sent;
        self.delivered += o.delivered;
        self.dropped += o.dropped;
        self.duplicated += o.duplicated;
        self.reordered += o.reordered;
        self.inversions += o.inversions;
        self.corrupted += o.corrupted;
        self.blocked += o.blocked;
        self.unroutable += o.unroutable;
        self.stalled_holds += o.stalled_holds;
        self.rebinds += o.rebinds;
        self.bytes += o.bytes;
    }
    pub fn faults_fired(&self) -> u64 {
        self.dropped + self.duplicated + self.reordered + self.corrupted + self.blocked
    }
}

struct Ev {
    at: Instant,
    seq: u64,
    dst_node: usize,
    src_visible: SocketAddr,
    link_idx: u64,
    link: (u16, u16),
    data: Vec<u8>,
}

impl PartialEq for Ev {
    fn eq(&self, o: &Self) -> bool {
        self.at == o.at && self.seq == o.seq
    }
}
impl Eq for Ev {}
impl PartialOrd for Ev {
    fn partial_cmp(&self, o: &Self) -> Option<std::cmp::Ordering> {
        Some(self.cmp(o))
    }
}
impl Ord for Ev {
    fn cmp(&self, o: &Self) -> std::cmp::Ordering {
        // BinaryHeap is a max-heap: reverse
        (o.at, o.seq).cmp(&(self.at, self.seq))
    }
}

struct Node {
    bind: SocketAddr,
    visible: SocketAddr,
    inbox: VecDeque<(SocketAddr, Vec<u8>)>,
    waker: Option<Waker>,
    /// inbound datagrams are held (not lost) until this instant
    stalled_until: Option<Instant>,
    tx: u64,
    rx: u64,
    closed: bool,
}

struct State {
    cfg: NetCfg,
    t0: Instant,
    heap: BinaryHeap<Ev>,
    seq: u64,
    nodes: Vec<Node>,
    route: HashMap<SocketAddr, usize>,
    link_tx: HashMap<(u16, u16), u64>,
    link_max_rx: HashMap<(u16, u16), u64>,
    blocks: HashSet<(usize, usize)>,
    stats: NetStats,
    hash: u64,
    activity: u64,
    last_us: u64,
    trace: Option<Vec<String>>,
    suppress: HashSet<(u16, u16, u64)>,
    pump_waker: Option<Waker>,
}

#[derive(Clone)]
pub struct SimNet(Arc<Mutex<State>>);

impl Debug for SimNet {
    fn fmt(&self, f: &mut std::fmt::Formatter<'_>) -> std::fmt::Result {
        f.write_str("SimNet")
    }
}

impl SimNet {
    /// Must be called inside the (paused) tokio runtime of the run.
    pub fn new(cfg: NetCfg, trace: bool) -> Self {
        let suppress = cfg.suppress.iter().cloned().collect();
        let net = SimNet(Arc::new(Mutex::new(State {
            cfg,
            t0: Instant::now(),
            heap: BinaryHeap::new(),
            seq: 0,
            nodes: Vec::new(),
            route: HashMap::new(),
            link_tx: HashMap::new(),
            link_max_rx: HashMap::new(),
            blocks: HashSet::new(),
            stats: NetStats::default(),
            hash: FNV_INIT,
            activity: 0,
            last_us: 0,
            trace: if trace { Some(Vec::new()) } else { None },
            suppress,
            pump_waker: None,
        })));
        tokio::spawn(Pump { net: net.clone(), sleep: None });
        net
    }

    pub fn socket(&self, bind: SocketAddr) -> Arc<SimSocket> {
        let mut st = self.0.lock().unwrap();
        let id = st.nodes.len();
        st.nodes.push(Node {
            bind,
            visible: bind,
            inbox: VecDeque::new(),
            waker: None,
            stalled_until: None,
            tx: 0,
            rx: 0,
            closed: false,
        });
        st.route.insert(bind, id);
        Arc::new(SimSocket { net: self.clone(), node: id, bind })
    }

    pub fn now_us(&self) -> u64 {
        let st = self.0.lock().unwrap();
        (Instant::now() - st.t0).as_micros() as u64
    }

    /// Simulated time (µs) of the last network or noted application event.
    pub fn now_us_at_end(&self) -> u64 {
        self.0.lock().unwrap().last_us
    }

    pub fn stats(&self) -> NetStats {
        self.0.lock().unwrap().stats.clone()
    }

    pub fn hash(&self) -> u64 {
        self.0.lock().unwrap().hash
    }

    pub fn take_trace(&self) -> Vec<String> {
        self.0.lock().unwrap().trace.take().unwrap_or_default()
    }

    /// Mixes an application-visible event into the decision log hash (and trace).
    pub fn note(&self, what: &str) {
        let mut st = self.0.lock().unwrap();
        let t = (Instant::now() - st.t0).as_micros() as u64;
        st.hash = fnv1a(st.hash, &t.to_le_bytes());
        st.hash = fnv1a(st.hash, what.as_bytes());
        st.last_us = t;
        if let Some(tr) = st.trace.as_mut() {
            tr.push(format!("{t:>10} app {what}"));
        }
    }

    /// Blocks (or unblocks) datagrams from node `src` to node `dst` (directional).
    pub fn set_block(&self, src: &SimSocket, dst: &SimSocket, blocked: bool) {
        let mut st = self.0.lock().unwrap();
        if blocked {
            st.blocks.insert((src.node, dst.node));
        } else {
            st.blocks.remove(&(src.node, dst.node));
        }
        let t = (Instant::now() - st.t0).as_micros() as u64;
        st.hash = fnv1a(st.hash, &[b'B', src.node as u8, dst.node as u8, blocked as u8]);
        if let Some(tr) = st.trace.as_mut() {
            tr.push(format!("{t:>10} block {}->{} {}", src.node, dst.node, blocked));
        }
    }

    pub fn partition(&self, a: &SimSocket, b: &SimSocket, blocked: bool) {
        self.set_block(a, b, blocked);
        self.set_block(b, a, blocked);
    }

    /// Holds every datagram arriving at `node` until `dur` from now (slow / stalled node).
    pub fn stall_inbound(&self, node: &SimSocket, dur: Duration) {
        let mut st = self.0.lock().unwrap();
        st.nodes[node.node].stalled_until = Some(Instant::now() + dur);
        st.stats.stalled_holds += 1;
    }

    /// NAT rebind: the node becomes visible under `new_visible`; datagrams to its old
    /// address are no longer routable.
    pub fn rebind(&self, node: &SimSocket, new_visible: SocketAddr) {
        let mut st = self.0.lock().unwrap();
        let old = st.nodes[node.node].visible;
        st.route.remove(&old);
        st.route.insert(new_visible, node.node);
        st.nodes[node.node].visible = new_visible;
        st.stats.rebinds += 1;
        st.hash = fnv1a(st.hash, b"rebind");
    }

    pub fn set_cfg(&self, f: impl FnOnce(&mut NetCfg)) {
        let mut st = self.0.lock().unwrap();
        f(&mut st.cfg);
    }

    pub fn in_flight(&self) -> usize {
        self.0.lock().unwrap().heap.len()
    }

    pub fn node_counts(&self, node: &SimSocket) -> (u64, u64) {
        let st = self.0.lock().unwrap();
        (st.nodes[node.node].tx, st.nodes[node.node].rx)
    }

    fn activity(&self) -> u64 {
        self.0.lock().unwrap().activity
    }

    /// Waits until no datagram has been sent or delivered for `quiet` of simulated time
    /// and nothing is in flight. Bounded by `max`.
    pub async fn quiesce(&self, quiet: Duration, max: Duration) -> bool {
        let deadline = Instant::now() + max;
        loop {
            let mark = self.activity();
            tokio::time::sleep(quiet).await;
            if self.activity() == mark && self.in_flight() == 0 {
                return true;
            }
            if Instant::now() >= deadline {
                return false;
            }
        }
    }

    fn fate(st: &State, link: (u16, u16), idx: u64, now_us: u64) -> (Fate, u64) {
        let cfg = &st.cfg;
        let h = mix(&[cfg.seed, link.0 as u64, link.1 as u64, idx]);
        let jitter = if cfg.lat_jitter_us > 0 {
            (h >> 20) % (cfg.lat_jitter_us + 1)
        } else {
            0
        };
        let delay = cfg.lat_min_us + jitter;
        let faults_on = cfg.fault_until_us.map(|u| now_us < u).unwrap_or(true);
        if !faults_on || !cfg.has_faults() || st.suppress.contains(&(link.0, link.1, idx)) {
            return (Fate::Deliver, delay);
        }
        let r = (h % 1000) as u32;
        let mut acc = cfg.drop_pm;
        if r < acc {
            return (Fate::Drop, delay);
        }
        acc += cfg.dup_pm;
        if r < acc {
            return (Fate::Dup, delay);
        }
        acc += cfg.reorder_pm;
        if r < acc {
            return (Fate::Reorder, delay + cfg.reorder_extra_us);
        }
        acc += cfg.corrupt_pm;
        if r < acc {
            return (Fate::Corrupt, delay);
        }
        (Fate::Deliver, delay)
    }

    fn send(&self, from: usize, dst: SocketAddr, data: &[u8]) {
        let mut st = self.0.lock().unwrap();
        let now = Instant::now();
        let now_us = (now - st.t0).as_micros() as u64;
        st.last_us = now_us;
        let src_visible = st.nodes[from].visible;
        let link = (src_visible.port(), dst.port());
        let idx = {
            let c = st.link_tx.entry(link).or_insert(0);
            let i = *c;
            *c += 1;
            i
        };
        st.stats.sent += 1;
        st.stats.bytes += data.len() as u64;
        st.nodes[from].tx += 1;
        st.activity += 1;

        let dst_node = st.route.get(&dst).copied();
        let (fate, delay) = Self::fate(&st, link, idx, now_us);
        let mut outcome = fate;
        let mut tag = "";
        let Some(dst_node) = dst_node else {
            st.stats.unroutable += 1;
            st.hash = fnv1a(st.hash, &[b'U']);
            if let Some(tr) = st.trace.as_mut() {
                tr.push(format!("{now_us:>10} tx {}->{} #{idx} unroutable", link.0, link.1));
            }
            return;
        };
        if st.blocks.contains(&(from, dst_node)) || st.nodes[dst_node].closed {
            st.stats.blocked += 1;
            outcome = Fate::Drop;
            tag = " (blocked)";
        } else {
            match fate {
                Fate::Drop => st.stats.dropped += 1,
                Fate::Dup => st.stats.duplicated += 1,
                Fate::Reorder => st.stats.reordered += 1,
                Fate::Corrupt => st.stats.corrupted += 1,
                Fate::Deliver => {}
            }
        }

        let mut rec = [0u8; 32];
        rec[0..8].copy_from_slice(&now_us.to_le_bytes());
        rec[8..10].copy_from_slice(&link.0.to_le_bytes());
        rec[10..12].copy_from_slice(&link.1.to_le_bytes());
        rec[12..20].copy_from_slice(&idx.to_le_bytes());
        rec[20] = outcome as u8;
        rec[21..29].copy_from_slice(&delay.to_le_bytes());
        st.hash = fnv1a(st.hash, &rec);
        if let Some(tr) = st.trace.as_mut() {
            tr.push(format!(
                "{now_us:>10} tx {}->{} #{idx} {:?}{tag} +{delay}us",
                link.0, link.1, outcome
            ));
        }

        if outcome == Fate::Drop {
            return;
        }
        let mut payload = data.to_vec();
        if outcome == Fate::Corrupt && !payload.is_empty() {
            let pos = (mix(&[st.cfg.seed, idx, 77]) % payload.len() as u64) as usize;
            payload[pos] ^= 0x20;
        }
        let copies = if outcome == Fate::Dup { 2 } else { 1 };
        for c in 0..copies {
            st.seq += 1;
            let seq = st.seq;
            let at = now + Duration::from_micros(delay * (c + 1));
            st.heap.push(Ev {
                at,
                seq,
                dst_node,
                src_visible,
                link_idx: idx,
                link,
                data: payload.clone(),
            });
        }
        if let Some(w) = st.pump_waker.take() {
            w.wake();
        }
    }

    /// Moves every due event into its destination inbox. Returns the next due instant.
    fn deliver_due(&self) -> Option<Instant> {
        let mut st = self.0.lock().unwrap();
        let now = Instant::now();
        loop {
            let due = match st.heap.peek() {
                Some(ev) if ev.at <= now => true,
                _ => false,
            };
            if !due {
                break;
            }
            let ev = st.heap.pop().unwrap();
            // stalled destination: re-queue after the stall window (order preserved by seq)
            if let Some(until) = st.nodes[ev.dst_node].stalled_until {
                if until > now {
                    let mut ev = ev;
                    ev.at = until;
                    st.heap.push(ev);
                    continue;
                } else {
                    st.nodes[ev.dst_node].stalled_until = None;
                }
            }
            let now_us = (now - st.t0).as_micros() as u64;
            let maxrx = st.link_max_rx.entry(ev.link).or_insert(0);
            if ev.link_idx < *maxrx {
                st.stats.inversions += 1;
            } else {
                *maxrx = ev.link_idx;
            }
            st.stats.delivered += 1;
            st.activity += 1;
            st.last_us = now_us;
            let mut rec = [0u8; 21];
            rec[0..8].copy_from_slice(&now_us.to_le_bytes());
            rec[8..10].copy_from_slice(&ev.link.0.to_le_bytes());
            rec[10..12].copy_from_slice(&ev.link.1.to_le_bytes());
            rec[12..20].copy_from_slice(&ev.link_idx.to_le_bytes());
            rec[20] = b'R';
            st.hash = fnv1a(st.hash, &rec);
            if let Some(tr) = st.trace.as_mut() {
                tr.push(format!("{now_us:>10} rx {}->{} #{}", ev.link.0, ev.link.1, ev.link_idx));
            }
            let node = &mut st.nodes[ev.dst_node];
            node.rx += 1;
            node.inbox.push_back((ev.src_visible, ev.data));
            if let Some(w) = node.waker.take() {
                w.wake();
            }
        }
        st.heap.peek().map(|ev| ev.at)
    }
}

struct Pump {
    net: SimNet,
    sleep: Option<Pin<Box<tokio::time::Sleep>>>,
}

impl std::future::Future for Pump {
    type Output = ();
    fn poll(mut self: Pin<&mut Self>, cx: &mut Context<'_>) -> Poll<()> {
        loop {
            let next = self.net.deliver_due();
            {
                let mut st = self.net.0.lock().unwrap();
                st.pump_waker = Some(cx.waker().clone());
            }
            match next {
                None => {
                    self.sleep = None;
                    return Poll::Pending;
                }
                Some(at) => {
                    let mut sl = Box::pin(tokio::time::sleep_until(at));
                    match sl.as_mut().poll(cx) {
                        Poll::Ready(()) => continue,
                        Poll::Pending => {
                            self.sleep = Some(sl);
                            return Poll::Pending;
                        }
                    }
                }
            }
        }
    }
}

pub struct SimSocket {
    net: SimNet,
    node: usize,
    bind: SocketAddr,
}

impl SimSocket {
    pub fn addr(&self) -> SocketAddr {
        self.bind
    }
    pub fn net(&self) -> &SimNet {
        &self.net
    }
    /// The node stops receiving for good (crash): inbound datagrams are dropped.
    pub fn crash(&self) {
        let mut st = self.net.0.lock().unwrap();
        st.nodes[self.node].closed = true;
    }
}

impl Debug for SimSocket {
    fn fmt(&self, f: &mut std::fmt::Formatter<'_>) -> std::fmt::Result {
        write!(f, "SimSocket({})", self.bind)
    }
}

#[derive(Debug)]
struct AlwaysWritable;

impl quinn::UdpPoller for AlwaysWritable {
    fn poll_writable(self: Pin<&mut Self>, _cx: &mut Context) -> Poll<io::Result<()>> {
        Poll::Ready(Ok(()))
    }
}

impl quinn::AsyncUdpSocket for SimSocket {
    fn create_io_poller(self: Arc<Self>) -> Pin<Box<dyn quinn::UdpPoller>> {
        Box::pin(AlwaysWritable)
    }

    fn try_send(&self, transmit: &Transmit) -> io::Result<()> {
        match transmit.segment_size {
            Some(seg) if seg > 0 => {
                for chunk in transmit.contents.chunks(seg) {
                    self.net.send(self.node, transmit.destination, chunk);
                }
            }
            _ => self.net.send(self.node, transmit.destination, transmit.contents),
        }
        Ok(())
    }

    fn poll_recv(
        &self,
        cx: &mut Context,
        bufs: &mut [IoSliceMut<'_>],
        meta: &mut [RecvMeta],
    ) -> Poll<io::Result<usize>> {
        let mut st = self.net.0.lock().unwrap();
        let node = &mut st.nodes[self.node];
        let mut n = 0;
        while n < bufs.len() && n < meta.len() {
            let Some((src, data)) = node.inbox.pop_front() else {
                break;
            };
            let len = data.len().min(bufs[n].len());
            bufs[n][..len].copy_from_slice(&data[..len]);
            let mut m = RecvMeta::default();
            m.addr = src;
            m.len = len;
            m.stride = len;
            m.ecn = None;
            m.dst_ip = None;
            meta[n] = m;
            n += 1;
        }
        if n > 0 {
            Poll::Ready(Ok(n))
        } else {
            node.waker = Some(cx.waker().clone());
            Poll::Pending
        }
    }

    fn local_addr(&self) -> io::Result<SocketAddr> {
        Ok(self.bind)
    }

    fn max_transmit_segments(&self) -> usize {
        1
    }

    fn max_receive_segments(&self) -> usize {
        1
    }

    fn may_fragment(&self) -> bool {
        false
    }
}
