//! C08 — every peer-opened stream is delivered exactly once at any acceptance pace.
//!
//! E2E: the peer opens N streams (1..3x the concurrent-stream limit, uni/bidi mix), each
//! carrying a unique tag; the application accepts from 1-4 tasks per kind with generated
//! delays, and races every accept call against a generated deadline, dropping the future at
//! that point and reissuing it (the documented cancel-safe usage). History check against a
//! bag model: the multiset of (stream id, payload) returned by all accept calls must equal
//! the multiset opened.

use crate::core::*;
use crate::harness::{self, EpKnobs};
use crate::rng::Rng;
use crate::simnet::{NetCfg, SimNet};
use crate::simrt::{self, RtKnobs};
use crate::sut;
use serde::{Deserialize, Serialize};
use std::collections::BTreeMap;
use std::sync::atomic::{AtomicBool, AtomicU64, Ordering};
use std::sync::{Arc, Mutex};
use std::time::Duration;
use wtransport::Connection;

#[derive(Serialize, Deserialize, Clone, Debug)]
pub struct Open {
    pub bidi: bool,
    pub start_us: u64,
    pub len: usize,
    /// the opener abandons the opening between its two awaits (drops the `Opening*Stream`):
    /// the peer sees a stream that ends without a byte - nothing to deliver, nothing disturbed
    #[serde(default)]
    pub abandon: bool,
}

#[derive(Serialize, Deserialize, Clone, Debug)]
pub struct Acceptor {
    pub bidi: bool,
    /// deadlines (µs) cycled through for successive accept calls; u64::MAX = never cancel
    pub deadlines_us: Vec<u64>,
    pub delay_us: u64,
    pub start_us: u64,
    /// the task leaves after this many streams (0 = keeps accepting)
    #[serde(default)]
    pub quota: usize,
    /// the task leaves when its accept call hits the deadline instead of reissuing it
    #[serde(default)]
    pub leave_on_cancel: bool,
}

#[derive(Serialize, Deserialize, Clone, Debug)]
pub struct Plan {
    pub seed: u64,
    pub rt: RtKnobs,
    pub net: NetCfg,
    pub opener_is_client: bool,
    pub limit: u64,
    pub opens: Vec<Open>,
    pub acceptors: Vec<Acceptor>,
    /// datagrams the opener sends before (and between) its streams; nobody on the accepting side
    /// calls receive_datagram - unread datagrams must not hold streams back
    #[serde(default)]
    pub unread_datagrams: usize,
}

pub fn gen_plan(seed: u64, faulty: bool, tier: Tier) -> Plan {
    let mut rng = Rng::new(seed, "c08");
    let rt = RtKnobs::from_rng(&mut rng);
    let mut net = NetCfg::clean(rng.next_u64());
    net.lat_min_us = *rng.pick(&[100u64, 1_000, 10_000]);
    net.lat_jitter_us = *rng.pick(&[0u64, 0, 2_000]);
    if faulty {
        net.drop_pm = *rng.pick(&[10u32, 30]);
        net.dup_pm = *rng.pick(&[0u32, 20]);
        net.reorder_pm = *rng.pick(&[0u32, 80]);
        net.reorder_extra_us = rng.range(1_000, 15_000);
        net.fault_until_us = Some(30_000_000);
    }
    let limit = *rng.pick(&[4u64, 5, 8, 16]);
    let n = match tier {
        Tier::Quick => rng.usize(1, (2 * limit as usize).max(2)),
        Tier::Thorough => rng.usize(1, 3 * limit as usize),
    };
    let kind_mix = rng.below(3); // 0 all uni, 1 all bidi, 2 mixed
    let burst = rng.coin();
    let opens = (0..n)
        .map(|_| Open {
            bidi: match kind_mix {
                0 => false,
                1 => true,
                _ => rng.coin(),
            },
            start_us: if burst { 0 } else { rng.range(0, 100_000) },
            len: *rng.pick(&[0usize, 1, 8, 100, 2000]),
            abandon: false,
        })
        .collect();
    let mut opens: Vec<Open> = opens;
    if rng.chance_pm(250) {
        for _ in 0..rng.usize(1, 2) {
            let at = rng.usize(0, opens.len());
            opens.insert(at, Open { bidi: rng.chance_pm(300), start_us: rng.range(0, 60_000), len: 0, abandon: true });
        }
    }
    let mut acceptors = Vec::new();
    // "leaving" mode: the first task of each kind stays for good, the others take a few streams
    // and leave, or leave at their first deadline - whoever polled last must not take the
    // wake-up for the next stream with it
    let leaving = rng.chance_pm(350);
    // "late" mode: nobody accepts for 6-12 s (streams wait in the hand-off queues and in the
    // per-stream tasks meanwhile), then acceptance may be slow as well
    let late = rng.chance_pm(200);
    let late_start = *rng.pick(&[6_000_000u64, 9_000_000, 12_000_000]);
    for bidi in [false, true] {
        for j in 0..rng.usize(if leaving { 2 } else { 1 }, 4) {
            let nd = rng.usize(1, 5);
            let cancelling = if leaving && j == 0 { rng.chance_pm(300) } else { rng.chance_pm(700) };
            let (quota, leave_on_cancel) = if leaving && j > 0 {
                if rng.coin() { (*rng.pick(&[1usize, 1, 2, 3]), false) } else { (0, true) }
            } else {
                (0, false)
            };
            let cancelling = cancelling || leave_on_cancel;
            acceptors.push(Acceptor {
                quota,
                leave_on_cancel,
                bidi,
                deadlines_us: (0..nd)
                    .map(|_| if leave_on_cancel { *rng.pick(&[1u64, 50, 300, 1_000, 5_000, 30_000, 150_000]) } else if cancelling { *rng.pick(&[0u64, 0, 1, 50, 300, 1_000, 5_000, 30_000, u64::MAX]) } else { u64::MAX })
                    .collect(),
                delay_us: if late { *rng.pick(&[0u64, 5_000, 300_000, 700_000]) } else { *rng.pick(&[0u64, 0, 100, 5_000, 40_000]) },
                start_us: if late { late_start + rng.range(0, 500_000) } else { *rng.pick(&[0u64, 0, 10_000, 200_000]) },
            });
        }
    }
    let unread_datagrams = if rng.chance_pm(250) { rng.usize(2, 6) } else { 0 };
    Plan { seed, rt, net, opener_is_client: rng.coin(), limit, opens, acceptors, unread_datagrams }
}

fn tag_payload(i: usize, len: usize) -> Vec<u8> {
    let mut p = format!("stream-{i:06}|").into_bytes();
    while p.len() < len.max(14) {
        p.push(b'a' + (p.len() % 26) as u8);
    }
    p
}

#[derive(Default)]
struct Bag {
    opened: BTreeMap<u64, Vec<u8>>,         // stream id -> payload, as opened
    accepted: Vec<(u64, bool)>,             // every value returned by an accept call
    read: Vec<(u64, Result<Vec<u8>, String>)>,
}

fn spawn_acceptor(conn: Connection, a: Acceptor, bag: Arc<Mutex<Bag>>, cancels: Arc<AtomicU64>, stop: Arc<AtomicBool>) {
    tokio::spawn(async move {
        tokio::time::sleep(Duration::from_micros(a.start_us)).await;
        let mut i = 0usize;
        let mut taken = 0usize;
        loop {
            if stop.load(Ordering::Relaxed) || (a.quota > 0 && taken >= a.quota) {
                return;
            }
            let dl = a.deadlines_us[i % a.deadlines_us.len()];
            i += 1;
            let dur = if dl == u64::MAX { Duration::from_secs(3600) } else { Duration::from_micros(dl) };
            if a.bidi {
                match tokio::time::timeout(dur, conn.accept_bi()).await {
                    Err(_) => {
                        cancels.fetch_add(1, Ordering::Relaxed);
                        if a.leave_on_cancel {
                            return;
                        }
                        // a zero deadline polls the call exactly once; let simulated time move
                        // (a pure yield loop would keep the paused clock from ever advancing)
                        tokio::time::sleep(Duration::from_micros(200)).await;
                        continue;
                    }
                    Ok(Err(_)) => return,
                    Ok(Ok((send, mut recv))) => {
                        let id = recv.id().into_u64();
                        bag.lock().unwrap().accepted.push((id, true));
                        taken += 1;
                        let bag = bag.clone();
                        tokio::spawn(async move {
                            let _keep = send;
                            let r = read_all(&mut recv).await;
                            bag.lock().unwrap().read.push((id, r));
                        });
                    }
                }
            } else {
                match tokio::time::timeout(dur, conn.accept_uni()).await {
                    Err(_) => {
                        cancels.fetch_add(1, Ordering::Relaxed);
                        if a.leave_on_cancel {
                            return;
                        }
                        tokio::time::sleep(Duration::from_micros(200)).await;
                        continue;
                    }
                    Ok(Err(_)) => return,
                    Ok(Ok(mut recv)) => {
                        let id = recv.id().into_u64();
                        bag.lock().unwrap().accepted.push((id, false));
                        taken += 1;
                        let bag = bag.clone();
                        tokio::spawn(async move {
                            let r = read_all(&mut recv).await;
                            bag.lock().unwrap().read.push((id, r));
                        });
                    }
                }
            }
            if a.delay_us > 0 {
                tokio::time::sleep(Duration::from_micros(a.delay_us)).await;
            }
        }
    });
}

async fn read_all(recv: &mut wtransport::RecvStream) -> Result<Vec<u8>, String> {
    let mut all = Vec::new();
    let mut buf = vec![0u8; 1024];
    loop {
        match recv.read(&mut buf).await {
            Ok(Some(n)) => all.extend_from_slice(&buf[..n]),
            Ok(None) => return Ok(all),
            Err(e) => return Err(format!("{e:?}")),
        }
    }
}

pub fn execute(plan: &Plan, trace: bool) -> Exec {
    let mut ex = Exec::new();
    let plan = Arc::new(plan.clone());
    let p2 = plan.clone();
    let faulty = plan.net.has_faults();
    let netslot: Arc<Mutex<Option<SimNet>>> = Arc::new(Mutex::new(None));
    let ns2 = netslot.clone();
    let out = simrt::run(&plan.rt, plan.seed, Duration::from_secs(300), move || async move {
        let plan = p2;
        let net = SimNet::new(plan.net.clone(), trace);
        *ns2.lock().unwrap() = Some(net.clone());
        let mut k = EpKnobs::default();
        k.max_bi = plan.limit + 1; // + the CONNECT stream
        k.max_uni = plan.limit + 3; // + control (and room for QPACK streams)
        let pair = harness::pair(&net, plan.seed, &k, &k);
        let (cconn, sconn) = harness::establish(&pair, &harness::default_url()).await?;
        let (opener, acceptor) = if plan.opener_is_client { (cconn, sconn) } else { (sconn, cconn) };
        let bag: Arc<Mutex<Bag>> = Arc::new(Mutex::new(Bag::default()));
        let cancels = Arc::new(AtomicU64::new(0));
        let stop = Arc::new(AtomicBool::new(false));
        for a in plan.acceptors.iter().cloned() {
            spawn_acceptor(acceptor.clone(), a, bag.clone(), cancels.clone(), stop.clone());
        }
        for i in 0..plan.unread_datagrams {
            let _ = opener.send_datagram(format!("unread-datagram-{i}").as_bytes());
            if i % 2 == 1 {
                tokio::time::sleep(Duration::from_millis(5)).await;
            }
        }
        let mut handles = Vec::new();
        for (i, o) in plan.opens.iter().cloned().enumerate() {
            let (opener, bag) = (opener.clone(), bag.clone());
            handles.push(tokio::spawn(async move {
                tokio::time::sleep(Duration::from_micros(o.start_us)).await;
                let payload = tag_payload(i, o.len);
                if o.abandon {
                    if o.bidi {
                        drop(opener.open_bi().await.map_err(|e| format!("{e:?}"))?);
                    } else {
                        drop(opener.open_uni().await.map_err(|e| format!("{e:?}"))?);
                    }
                    return Ok(());
                }
                if o.bidi {
                    let (mut s, r) = opener.open_bi().await.map_err(|e| format!("{e:?}"))?.await.map_err(|e| format!("{e:?}"))?;
                    bag.lock().unwrap().opened.insert(s.id().into_u64(), payload.clone());
                    s.write_all(&payload).await.map_err(|e| format!("{e:?}"))?;
                    s.finish().await.map_err(|e| format!("{e:?}"))?;
                    drop(r);
                } else {
                    let mut s = opener.open_uni().await.map_err(|e| format!("{e:?}"))?.await.map_err(|e| format!("{e:?}"))?;
                    bag.lock().unwrap().opened.insert(s.id().into_u64(), payload.clone());
                    s.write_all(&payload).await.map_err(|e| format!("{e:?}"))?;
                    s.finish().await.map_err(|e| format!("{e:?}"))?;
                }
                Ok::<(), String>(())
            }));
        }
        let n = plan.opens.iter().filter(|o| !o.abandon).count();
        // everything opened must come out of the accept calls; bounded wait
        let b2 = bag.clone();
        let complete = sut::wait_until(Duration::from_secs(120), move || b2.lock().unwrap().read.len() >= n).await;
        let mut open_errors = Vec::new();
        for h in handles {
            match tokio::time::timeout(Duration::from_secs(5), h).await {
                Ok(Ok(Err(e))) => open_errors.push(e),
                Err(_) => open_errors.push("opener still pending".into()),
                _ => {}
            }
        }
        // nothing more may appear afterwards
        net.quiesce(Duration::from_millis(100), Duration::from_secs(5)).await;
        tokio::time::sleep(Duration::from_millis(500)).await;
        stop.store(true, Ordering::Relaxed);
        let b = std::mem::take(&mut *bag.lock().unwrap());
        drop(pair);
        Ok::<_, String>((b, complete, open_errors, cancels.load(Ordering::Relaxed)))
    });
    sut::finish_exec(&mut ex, &netslot, trace);
    if !out.panics.is_empty() {
        ex.violation("C08/panic", out.panics.join(" | "));
        return ex;
    }
    let (bag, complete, open_errors, cancels) = match out.value {
        None => {
            if faulty {
                ex.inconclusive("simulated-time limit under faults");
            } else {
                ex.violation("C08/run-did-not-finish", "exceeded 300 s simulated".into());
            }
            return ex;
        }
        Some(Err(e)) => {
            if faulty {
                ex.inconclusive("setup failed under faults");
            } else {
                ex.violation("C08/setup", e);
            }
            return ex;
        }
        Some(Ok(x)) => x,
    };
    ex.fault("app_calls_cancelled_and_reissued", cancels);
    ex.probe("streams_opened", bag.opened.len() as u64);
    ex.fault("datagrams_left_unread", plan.unread_datagrams as u64);
    ex.fault("openings_abandoned", plan.opens.iter().filter(|o| o.abandon).count() as u64);
    ex.nontrivial = !bag.opened.is_empty() && (!faulty || ex.net.faults_fired() > 0);
    let lost_conn = open_errors.iter().any(|e| e.contains("NotConnected") || e.contains("TimedOut")) || bag.read.iter().any(|(_, r)| matches!(r, Err(e) if e.contains("NotConnected")));
    if faulty && lost_conn {
        ex.inconclusive("connection lost under faults");
        return ex;
    }
    // ---- bag model -----------------------------------------------------------------------------
    let mut count: BTreeMap<u64, usize> = BTreeMap::new();
    for (id, _) in &bag.accepted {
        *count.entry(*id).or_insert(0) += 1;
    }
    for (id, n) in &count {
        if !bag.opened.contains_key(id) {
            ex.violation("C08/invented-stream", format!("an accept call returned stream {id}, which the peer never opened (opened: {:?})", bag.opened.keys().collect::<Vec<_>>()));
            return ex;
        }
        if *n > 1 {
            ex.violation("C08/duplicated-stream", format!("stream {id} was returned by {n} accept calls"));
            return ex;
        }
    }
    for (id, bidi) in &bag.accepted {
        // QUIC: bit 1 clear = bidirectional
        if (*id & 2 == 0) != *bidi {
            ex.violation("C08/wrong-kind", format!("stream {id} was returned by accept_{}", if *bidi { "bi" } else { "uni" }));
            return ex;
        }
    }
    let missing: Vec<u64> = bag.opened.keys().filter(|id| !count.contains_key(id)).copied().collect();
    if !missing.is_empty() || !complete {
        if faulty && !open_errors.is_empty() {
            ex.inconclusive("openers failed under faults");
            return ex;
        }
        ex.violation(
            "C08/lost-stream",
            format!(
                "{} of {} opened streams were never returned by an accept call within 120 s (ids {:?}); {} accept calls were cancelled; opener errors {:?}; limit {}",
                missing.len(),
                bag.opened.len(),
                &missing[..missing.len().min(8)],
                cancels,
                open_errors,
                plan.limit
            ),
        );
        return ex;
    }
    for (id, r) in &bag.read {
        match r {
            Ok(bytes) if Some(bytes) == bag.opened.get(id) => {}
            other => {
                ex.violation("C08/wrong-bytes", format!("stream {id}: read {:?}, opened with {:?}", other.as_ref().map(|b| String::from_utf8_lossy(b).to_string()), bag.opened.get(id).map(|b| String::from_utf8_lossy(b).to_string())));
                return ex;
            }
        }
    }
    if !open_errors.is_empty() && !faulty {
        ex.violation("C08/opener-error", format!("{open_errors:?}"));
    }
    ex
}

pub struct C08E2E {
    pub faulty: bool,
}

impl TypedScenario for C08E2E {
    type Plan = Plan;
    fn name(&self) -> &'static str {
        if self.faulty {
            "e2e-faults"
        } else {
            "e2e-clean"
        }
    }
    fn budget(&self, tier: Tier) -> usize {
        match (tier, self.faulty) {
            (Tier::Quick, false) => 8000,
            (Tier::Quick, true) => 3000,
            (Tier::Thorough, false) => 1_500_000,
            (Tier::Thorough, true) => 500_000,
        }
    }
    fn generate(&self, seed: u64, _index: usize, tier: Tier) -> Plan {
        gen_plan(seed, self.faulty, tier)
    }
    fn execute(&self, plan: &Plan, trace: bool) -> Exec {
        execute(plan, trace)
    }
    fn faulty(&self) -> bool {
        self.faulty
    }
    fn shrink(&self, plan: &Plan) -> Vec<Plan> {
        let v = serde_json::to_value(plan).unwrap();
        let mut c = shrink_array(&v, "/opens", 1);
        c.extend(shrink_array(&v, "/acceptors", 1));
        c.extend(shrink_net(&v, "/net"));
        for i in 0..plan.acceptors.len() {
            c.extend(shrink_array(&v, &format!("/acceptors/{i}/deadlines_us"), 1));
            c.extend(shrink_num(&v, &format!("/acceptors/{i}/delay_us"), 0));
            c.extend(shrink_num(&v, &format!("/acceptors/{i}/start_us"), 0));
        }
        for i in 0..plan.opens.len() {
            c.extend(shrink_num(&v, &format!("/opens/{i}/start_us"), 0));
        }
        c.into_iter()
            .filter_map(|v| serde_json::from_value::<Plan>(v).ok())
            .filter(|p| p.opens.iter().all(|o| p.acceptors.iter().any(|a| a.bidi == o.bidi)))
            .collect()
    }
}

/// Streams opened when only a few bytes of the acceptor's connection-level credit are left (an
/// unread bulk stream has eaten the window down to a residue of 0-120 bytes): each of them is
/// still returned by accept with exactly its own bytes. C01's end-to-end scenario in its
/// "credit residue" mode, reported under C08.
pub struct C08Residue;

impl TypedScenario for C08Residue {
    type Plan = crate::props::c01::Plan;
    fn name(&self) -> &'static str {
        "e2e-credit-residue"
    }
    fn budget(&self, tier: Tier) -> usize {
        match tier {
            Tier::Quick => 2500,
            Tier::Thorough => 250_000,
        }
    }
    fn generate(&self, seed: u64, _index: usize, tier: Tier) -> Self::Plan {
        crate::props::c01::gen_plan_mode(seed ^ 0xc08, false, tier, true)
    }
    fn execute(&self, plan: &Self::Plan, trace: bool) -> Exec {
        crate::props::c01::execute(plan, trace).relabel("C01/", "C08/")
    }
}

/// A peer that paces its writes: the preamble of every stream it opens arrives in pieces that
/// are 5.5-15 s apart. Each stream is still handed to the application exactly once with its
/// own bytes. C01's raw-preamble scenario in its "paced" mode, reported under C08.
pub struct C08Paced;

impl TypedScenario for C08Paced {
    type Plan = crate::props::c01::RawPlan;
    fn name(&self) -> &'static str {
        "raw-paced-preamble"
    }
    fn budget(&self, tier: Tier) -> usize {
        match tier {
            Tier::Quick => 1500,
            Tier::Thorough => 150_000,
        }
    }
    fn generate(&self, seed: u64, index: usize, _tier: Tier) -> Self::Plan {
        crate::props::c01::gen_raw_plan(seed ^ 0xc08, index, true)
    }
    fn execute(&self, plan: &Self::Plan, trace: bool) -> Exec {
        crate::props::c01::exec_raw(plan, trace).relabel("C01/", "C08/")
    }
    fn shrink(&self, plan: &Self::Plan) -> Vec<Self::Plan> {
        crate::props::c01::shrink_raw(plan)
    }
}

pub fn def() -> PropertyDef {
    PropertyDef {
        id: "C08",
        scenarios: vec![Box::new(Typed(C08E2E { faulty: false })), Box::new(Typed(C08E2E { faulty: true })), Box::new(Typed(C08Residue)), Box::new(Typed(C08Paced))],
        rule: "Each run: real client and server with a concurrent-stream limit of 4/5/8/16; the opener (client or server) opens 1..2x (quick) / 1..3x (thorough) the limit streams (all uni, all bidi or mixed; in one burst or spread over 100 ms), each carrying a unique tag of 14..2000 bytes, and finishes them; the other side accepts with 1-4 tasks per kind, each with its own start time (in a fifth of the runs nobody accepts for the first 6-12 s), per-call delay (0..40 ms, up to 700 ms in those runs) and a cycle of deadlines (0 = polled exactly once, 1 us .. 30 ms, or none) after which the pending accept future is dropped and reissued; in a third of the runs all but one task per kind leave after 1-3 streams or at their first deadline (the task that polled last must not take the next wake-up with it); in a quarter of the runs the opener first sends 2-6 datagrams that nobody reads, and in another quarter it abandons 1-2 openings between their two awaits (streams that end without a byte). Oracle (bag model over the recorded history): every value returned by an accept call is a stream the peer opened, of the right kind, returned exactly once; every opened stream is returned within 120 s simulated; the bytes read from it are the tag it was opened with. e2e-credit-residue: C01's end-to-end transfer in its credit-residue mode (an unread bulk stream leaves 0-120 bytes of connection credit when further streams are opened): every stream is still delivered once with its own bytes. raw-paced-preamble: C01's raw-preamble scenario with a peer that paces its writes (the preamble of each of the 1-4 streams it opens is cut at least once and the pieces are 5.5-15 s apart): every stream is handed to the application exactly once with exactly its payload, and nothing else is. Fault batch: loss / duplication / reordering (a connection killed by the faults is inconclusive). Probe: number of accept calls cancelled. Non-trivial = at least one stream opened (and a fault fired in the fault batch); distinct = distinct plan hashes.",
        assumptions: vec![
            "current-thread runtime only: parallel acceptors are modelled as interleavings at await points (the multi-thread half of the quantifier cannot be made replayable and is not claimed)",
            "quinn/rustls/tokio executed for real but trusted",
        ],
        real_components: vec!["wtransport", "wtransport-proto", "quinn", "quinn-proto", "rustls", "ring", "tokio scheduler + timer wheel + sync primitives (paused clock)"],
        stub_components: vec!["UDP sockets (SimNet)", "OS clock"],
    }
}
