//! C09 — termination is prompt, total and never misattributed.
//!
//! (a) e2e-termination: real client <-> real server; one side ("observer") has a battery of
//!     pending calls (accept_uni, accept_bi, receive_datagram, closed, open_uni blocked on
//!     stream credit, read without data, write against a full window, stopped) spread over
//!     cloned handles when a generated cause ends the connection at a generated instant;
//!     afterwards a second battery of fresh calls is issued.
//! (b) raw-termination: the same battery on the endpoint under test with causes only a
//!     misbehaving / scripted peer can produce (close capsule, protocol violations, a stalled
//!     stream followed by the application dropping every handle).
//! (c) unit-sync: `driver::utils::{shared_result, bichannel}` (re-exported by the hook) under
//!     the seeded executor with setters, getters, cancellations and drops interleaved by the
//!     PRNG, against a set-once-cell / FIFO model.

use crate::core::*;
use crate::exec;
use crate::harness::{self, EpKnobs};
use crate::refcodec as rc;
use crate::rng::Rng;
use crate::simnet::{NetCfg, SimNet};
use crate::simrt::{self, RtKnobs};
use crate::sut;
use serde::{Deserialize, Serialize};
use std::sync::{Arc, Mutex};
use std::time::Duration;
use wtransport::error::{ConnectionError, SendDatagramError, StreamOpeningError, StreamReadError, StreamWriteError};
use wtransport::{Connection, VarInt};

#[derive(Serialize, Deserialize, Clone, Debug, PartialEq)]
pub enum Cause {
    PeerClose { code: u64, reason_hex: String },
    LocalClose { code: u64, reason_hex: String },
    Blackhole,
    /// only the direction towards the observer is cut
    InboundCut,
    PeerEndpointClose { code: u64 },
    LocalEndpointClose { code: u64 },
    PeerDropsAllHandles,
    // raw-only causes
    Capsule { code: u32, reason_hex: String },
    ProtocolViolation { kind: u8 },
    CleanFin,
}

#[derive(Debug, Clone)]
pub enum Res {
    Ok(String),
    Conn(ConnectionError),
    Read(StreamReadError),
    Write(StreamWriteError),
    Opening(StreamOpeningError),
    Dgram(SendDatagramError),
}

#[derive(Debug, Clone)]
pub struct Call {
    pub name: String,
    pub started_before_cause: bool,
    pub done_us: Option<u64>,
    pub res: Option<Res>,
}

type Calls = Arc<Mutex<Vec<Call>>>;

fn begin(calls: &Calls, name: &str, before: bool) -> usize {
    let mut c = calls.lock().unwrap();
    c.push(Call { name: name.to_string(), started_before_cause: before, done_us: None, res: None });
    c.len() - 1
}

fn end(calls: &Calls, net: &SimNet, i: usize, res: Res) {
    let mut c = calls.lock().unwrap();
    c[i].done_us = Some(net.now_us());
    c[i].res = Some(res);
}

pub struct Battery {
    pub calls: Calls,
    keep: Vec<Box<dyn std::any::Any + Send>>,
    held_send: Option<wtransport::SendStream>,
    held_recv: Option<wtransport::RecvStream>,
    pub blocked_open: bool,
}

/// Spawns the pending calls on `conn`. The peer is expected to hold, not read, whatever
/// streams it is handed.
pub async fn start_battery(conn: &Connection, net: &SimNet, clones: usize, try_block_open: bool) -> Battery {
    let calls: Calls = Arc::new(Mutex::new(Vec::new()));
    let mut keep: Vec<Box<dyn std::any::Any + Send>> = Vec::new();
    let handles: Vec<Connection> = (0..clones.max(1)).map(|_| conn.clone()).collect();
    let h = |i: usize| handles[i % handles.len()].clone();
    macro_rules! pend {
        ($name:expr, $c:expr, $fut:expr, $map:expr) => {{
            let i = begin(&calls, $name, true);
            let (calls2, net2) = (calls.clone(), net.clone());
            let c = $c;
            tokio::spawn(async move {
                let r = $fut(c).await;
                end(&calls2, &net2, i, $map(r));
            });
        }};
    }
    pend!("accept_uni", h(0), |c: Connection| async move { c.accept_uni().await.map(|_| ()) }, |r: Result<(), ConnectionError>| match r {
        Ok(()) => Res::Ok("stream".into()),
        Err(e) => Res::Conn(e),
    });
    pend!("accept_bi", h(1), |c: Connection| async move { c.accept_bi().await.map(|_| ()) }, |r: Result<(), ConnectionError>| match r {
        Ok(()) => Res::Ok("stream".into()),
        Err(e) => Res::Conn(e),
    });
    pend!("receive_datagram", h(2), |c: Connection| async move { c.receive_datagram().await.map(|_| ()) }, |r: Result<(), ConnectionError>| match r {
        Ok(()) => Res::Ok("datagram".into()),
        Err(e) => Res::Conn(e),
    });
    pend!("closed", h(0), |c: Connection| async move { c.closed().await }, |e: ConnectionError| Res::Conn(e));
    // a second set of the same calls queued behind the first (they wait on the internal mutex)
    pend!("accept_uni#2", h(2), |c: Connection| async move { c.accept_uni().await.map(|_| ()) }, |r: Result<(), ConnectionError>| match r {
        Ok(()) => Res::Ok("stream".into()),
        Err(e) => Res::Conn(e),
    });
    pend!("receive_datagram#2", h(1), |c: Connection| async move { c.receive_datagram().await.map(|_| ()) }, |r: Result<(), ConnectionError>| match r {
        Ok(()) => Res::Ok("datagram".into()),
        Err(e) => Res::Conn(e),
    });

    // S1: read with no data ever coming
    if let Ok(o) = conn.open_bi().await {
        if let Ok((s, mut r)) = o.await {
            keep.push(Box::new(s));
            let i = begin(&calls, "read", true);
            let (calls2, net2) = (calls.clone(), net.clone());
            tokio::spawn(async move {
                let mut buf = [0u8; 16];
                let res = match r.read(&mut buf).await {
                    Ok(x) => Res::Ok(format!("{x:?}")),
                    Err(e) => Res::Read(e),
                };
                end(&calls2, &net2, i, res);
            });
        }
    }
    // S2: write against a full window
    if let Ok(o) = conn.open_uni().await {
        if let Ok(mut s) = o.await {
            let i = begin(&calls, "write_all(blocked)", true);
            let (calls2, net2) = (calls.clone(), net.clone());
            tokio::spawn(async move {
                let big = vec![0x77u8; 2 << 20];
                let res = match s.write_all(&big).await {
                    Ok(()) => Res::Ok("wrote 2 MiB".into()),
                    Err(e) => Res::Write(e),
                };
                end(&calls2, &net2, i, res);
            });
        }
    }
    // S3: stopped()
    if let Ok(o) = conn.open_uni().await {
        if let Ok(mut s) = o.await {
            let i = begin(&calls, "stopped", true);
            let (calls2, net2) = (calls.clone(), net.clone());
            tokio::spawn(async move {
                let e = s.stopped().await;
                end(&calls2, &net2, i, Res::Write(e));
            });
        }
    }
    // S4: held for the later battery
    let (mut held_send, mut held_recv) = (None, None);
    if let Ok(o) = conn.open_bi().await {
        if let Ok((mut s, r)) = o.await {
            let _ = s.write_all(b"held").await;
            held_send = Some(s);
            held_recv = Some(r);
        }
    }
    // open_uni blocked on stream credit
    let mut blocked_open = false;
    if try_block_open {
        for _ in 0..40 {
            match tokio::time::timeout(Duration::from_millis(300), conn.open_uni()).await {
                Ok(Ok(o)) => {
                    if let Ok(s) = o.await {
                        keep.push(Box::new(s));
                    }
                }
                Ok(Err(_)) => break,
                Err(_) => {
                    blocked_open = true;
                    break;
                }
            }
        }
        if blocked_open {
            let i = begin(&calls, "open_uni(blocked on credit)", true);
            let (calls2, net2, c) = (calls.clone(), net.clone(), h(1));
            tokio::spawn(async move {
                let res = match c.open_uni().await {
                    Ok(o) => match o.await {
                        Ok(_) => Res::Ok("opened".into()),
                        Err(e) => Res::Opening(e),
                    },
                    Err(e) => Res::Conn(e),
                };
                end(&calls2, &net2, i, res);
            });
        }
    }
    Battery { calls, keep, held_send, held_recv, blocked_open }
}

/// Calls issued after the connection has ended; each must return an error promptly.
pub async fn later_battery(conn: &Connection, net: &SimNet, b: &mut Battery) {
    let calls = b.calls.clone();
    macro_rules! now {
        ($name:expr, $fut:expr, $map:expr) => {{
            let i = begin(&calls, $name, false);
            match tokio::time::timeout(Duration::from_secs(5), $fut).await {
                Ok(r) => end(&calls, net, i, $map(r)),
                Err(_) => {}
            }
        }};
    }
    let conn_res = |r: Result<String, ConnectionError>| match r {
        Ok(s) => Res::Ok(s),
        Err(e) => Res::Conn(e),
    };
    now!("later accept_uni", async { conn.accept_uni().await.map(|_| "stream".to_string()) }, conn_res);
    now!("later accept_bi", async { conn.accept_bi().await.map(|_| "stream".to_string()) }, conn_res);
    now!("later receive_datagram", async { conn.receive_datagram().await.map(|_| "datagram".to_string()) }, conn_res);
    now!("later closed", async { Err::<String, _>(conn.closed().await) }, conn_res);
    {
        let i = begin(&calls, "later open_uni", false);
        if let Ok(r) = tokio::time::timeout(Duration::from_secs(5), async {
            match conn.open_uni().await {
                Ok(o) => match o.await {
                    Ok(_) => Res::Ok("opened".into()),
                    Err(e) => Res::Opening(e),
                },
                Err(e) => Res::Conn(e),
            }
        })
        .await
        {
            end(&calls, net, i, r);
        }
        let i = begin(&calls, "later open_bi", false);
        if let Ok(r) = tokio::time::timeout(Duration::from_secs(5), async {
            match conn.open_bi().await {
                Ok(o) => match o.await {
                    Ok(_) => Res::Ok("opened".into()),
                    Err(e) => Res::Opening(e),
                },
                Err(e) => Res::Conn(e),
            }
        })
        .await
        {
            end(&calls, net, i, r);
        }
    }
    {
        let i = begin(&calls, "later send_datagram", false);
        let r = match conn.send_datagram(b"late") {
            Ok(()) => Res::Ok("sent".into()),
            Err(e) => Res::Dgram(e),
        };
        end(&calls, net, i, r);
        let _ = conn.max_datagram_size();
        let _ = conn.rtt();
        let _ = conn.remote_address();
    }
    if let Some(s) = b.held_send.as_mut() {
        let i = begin(&calls, "later write", false);
        if let Ok(r) = tokio::time::timeout(Duration::from_secs(5), s.write(b"late")).await {
            end(&calls, net, i, match r {
                Ok(n) => Res::Ok(format!("wrote {n}")),
                Err(e) => Res::Write(e),
            });
        }
        let i = begin(&calls, "later finish", false);
        if let Ok(r) = tokio::time::timeout(Duration::from_secs(5), s.finish()).await {
            end(&calls, net, i, match r {
                Ok(()) => Res::Ok("finished".into()),
                Err(e) => Res::Write(e),
            });
        }
        let i = begin(&calls, "later stopped", false);
        if let Ok(e) = tokio::time::timeout(Duration::from_secs(5), s.stopped()).await {
            end(&calls, net, i, Res::Write(e));
        }
    }
    if let Some(r) = b.held_recv.as_mut() {
        let i = begin(&calls, "later read", false);
        let mut buf = [0u8; 8];
        if let Ok(x) = tokio::time::timeout(Duration::from_secs(5), r.read(&mut buf)).await {
            end(&calls, net, i, match x {
                Ok(v) => Res::Ok(format!("{v:?}")),
                Err(e) => Res::Read(e),
            });
        }
    }
    let _ = &b.keep;
}

/// Which connection-level errors may name the cause.
fn allowed_conn(cause: &Cause, e: &ConnectionError) -> bool {
    match cause {
        Cause::PeerClose { code, reason_hex } => sut::app_closed(e) == Some((*code, harness::unhex(reason_hex))),
        Cause::PeerEndpointClose { code } => sut::app_closed(e) == Some((*code, b"endpoint".to_vec())),
        Cause::LocalClose { .. } | Cause::LocalEndpointClose { .. } => matches!(e, ConnectionError::LocallyClosed),
        Cause::Blackhole | Cause::InboundCut => matches!(e, ConnectionError::TimedOut),
        Cause::PeerDropsAllHandles => matches!(e, ConnectionError::ApplicationClosed(_) | ConnectionError::ConnectionClosed(_)),
        // the peer's session-level close: the cause itself, or the local close the library
        // performed in response
        Cause::Capsule { code, reason_hex } => sut::app_closed(e) == Some((*code as u64, harness::unhex(reason_hex))) || matches!(e, ConnectionError::LocallyClosed),
        Cause::CleanFin => sut::app_closed(e) == Some((0, vec![])) || matches!(e, ConnectionError::LocallyClosed),
        Cause::ProtocolViolation { .. } => matches!(e, ConnectionError::LocalH3Error(_) | ConnectionError::LocallyClosed),
    }
}

fn judge(ex: &mut Exec, cause: &Cause, calls: &[Call], t0_us: u64, bound_us: u64, who: &str) {
    let mut h3_errors: Vec<String> = Vec::new();
    for c in calls {
        let Some(res) = &c.res else {
            ex.violation(
                if c.started_before_cause { "C09/pending-call-hangs" } else { "C09/later-call-hangs" },
                format!("{who}: after {cause:?}, {} {}", c.name, if c.started_before_cause { format!("was still pending {} s after the cause", bound_us / 1_000_000) } else { "did not return within 5 s".to_string() }),
            );
            return;
        };
        if c.started_before_cause {
            if let Some(d) = c.done_us {
                if d > t0_us + bound_us {
                    ex.violation("C09/not-prompt", format!("{who}: {} completed {} ms after {cause:?}", c.name, (d - t0_us) / 1000));
                    return;
                }
            }
        }
        match res {
            // a peer that drops its stream handles thereby finishes / stops those streams: the
            // observer's stream-level calls then complete with ordinary stream signals
            Res::Ok(_) | Res::Write(StreamWriteError::Stopped(_)) | Res::Read(StreamReadError::Reset(_))
                if matches!(cause, Cause::PeerDropsAllHandles)
                    && matches!(c.name.as_str(), "read" | "stopped" | "write_all(blocked)" | "later write" | "later finish" | "later stopped" | "later read") => {}
            Res::Ok(what) => {
                // a pending call may legitimately complete *before* the cause; nothing may succeed after it
                if !c.started_before_cause || c.done_us.map(|d| d > t0_us).unwrap_or(false) {
                    // writes into the local buffer of a dead-but-not-yet-detected connection are
                    // possible only for the black-hole causes, and only before the timeout is known
                    ex.violation("C09/success-after-termination", format!("{who}: after {cause:?}, {} returned success ({what})", c.name));
                    return;
                }
            }
            Res::Conn(e) => {
                if !allowed_conn(cause, e) {
                    ex.violation("C09/misattributed", format!("{who}: after {cause:?}, {} returned {e:?}", c.name));
                    return;
                }
                if let ConnectionError::LocalH3Error(h) = e {
                    h3_errors.push(format!("{h:?}"));
                }
            }
            Res::Read(StreamReadError::NotConnected) | Res::Write(StreamWriteError::NotConnected) | Res::Opening(StreamOpeningError::NotConnected) | Res::Dgram(SendDatagramError::NotConnected) => {}
            other => {
                ex.violation("C09/misattributed", format!("{who}: after {cause:?}, {} returned {other:?}", c.name));
                return;
            }
        }
    }
    h3_errors.dedup();
    if h3_errors.len() > 1 {
        ex.violation("C09/conflicting-causes", format!("{who}: different local protocol errors reported: {h3_errors:?}"));
    }
}

// ---- (a) E2E -------------------------------------------------------------------------------------

#[derive(Serialize, Deserialize, Clone, Debug)]
pub struct Plan {
    pub seed: u64,
    pub rt: RtKnobs,
    pub net: NetCfg,
    pub observer_is_client: bool,
    pub cause: Cause,
    pub clones: usize,
    pub idle_ms: u64,
    pub delay_us: u64,
    pub block_open: bool,
}

pub fn gen_plan(seed: u64, index: usize) -> Plan {
    let mut rng = Rng::new(seed, "c09");
    let mut net = NetCfg::clean(rng.next_u64());
    net.lat_min_us = *rng.pick(&[200u64, 1_000, 10_000]);
    // QUIC reason phrases may be longer than the 1024 bytes a close capsule can carry
    let rl = *rng.pick(&[0usize, 1, 20, 200, 1024, 1025, 1060]);
    let code = *rng.pick(&[0u64, 1, 0x100, 0x10c, (1 << 62) - 1, 77, 0x104, 0x170d_7b68, 0x3994_bd84, 0x33]);
    let cause = match index % 7 {
        0 => Cause::PeerClose { code, reason_hex: harness::hex(&rng.bytes(rl)) },
        1 => Cause::LocalClose { code, reason_hex: harness::hex(&rng.bytes(rl)) },
        2 => Cause::Blackhole,
        3 => Cause::InboundCut,
        4 => Cause::PeerEndpointClose { code },
        5 => Cause::LocalEndpointClose { code },
        _ => Cause::PeerDropsAllHandles,
    };
    Plan {
        seed,
        rt: RtKnobs::from_rng(&mut rng),
        net,
        observer_is_client: rng.coin(),
        cause,
        clones: rng.usize(1, 3),
        idle_ms: *rng.pick(&[2_000u64, 5_000, 10_000]),
        delay_us: *rng.pick(&[0u64, 1, 500, 30_000]),
        block_open: rng.coin(),
    }
}

pub fn execute(plan: &Plan, trace: bool) -> Exec {
    let mut ex = Exec::new();
    let plan = Arc::new(plan.clone());
    let p2 = plan.clone();
    let netslot: Arc<Mutex<Option<SimNet>>> = Arc::new(Mutex::new(None));
    let ns2 = netslot.clone();
    let out = simrt::run(&plan.rt, plan.seed, Duration::from_secs(600), move || async move {
        let plan = p2;
        let net = SimNet::new(plan.net.clone(), trace);
        *ns2.lock().unwrap() = Some(net.clone());
        let mut k = EpKnobs::default();
        k.idle_timeout_ms = Some(plan.idle_ms);
        k.max_uni = 8;
        let pair = harness::pair(&net, plan.seed, &k, &k);
        let (cconn, sconn) = harness::establish(&pair, &harness::default_url()).await?;
        let (obs, peer) = if plan.observer_is_client { (cconn, sconn) } else { (sconn, cconn) };
        let (obs_sock, peer_sock) = if plan.observer_is_client { (pair.client_sock.clone(), pair.server_sock.clone()) } else { (pair.server_sock.clone(), pair.client_sock.clone()) };
        // the peer application holds whatever it is handed and never reads
        let held: Arc<Mutex<Vec<Box<dyn std::any::Any + Send>>>> = Arc::new(Mutex::new(Vec::new()));
        let mut peer_tasks = Vec::new();
        {
            let (p, h) = (peer.clone(), held.clone());
            peer_tasks.push(tokio::spawn(async move {
                while let Ok(s) = p.accept_uni().await {
                    h.lock().unwrap().push(Box::new(s));
                }
            }));
            let (p, h) = (peer.clone(), held.clone());
            peer_tasks.push(tokio::spawn(async move {
                while let Ok(s) = p.accept_bi().await {
                    h.lock().unwrap().push(Box::new(s));
                }
            }));
        }
        let mut battery = start_battery(&obs, &net, plan.clones, plan.block_open).await;
        net.quiesce(Duration::from_millis(50), Duration::from_secs(5)).await;
        tokio::time::sleep(Duration::from_micros(plan.delay_us)).await;
        let t0 = net.now_us();
        net.note("cause");
        let mut peer_tx_after: Option<(u64, u64)> = None;
        match &plan.cause {
            Cause::PeerClose { code, reason_hex } => peer.close(VarInt::try_from_u64(*code).unwrap(), &harness::unhex(reason_hex)),
            Cause::LocalClose { code, reason_hex } => obs.close(VarInt::try_from_u64(*code).unwrap(), &harness::unhex(reason_hex)),
            Cause::Blackhole => net.partition(&obs_sock, &peer_sock, true),
            Cause::InboundCut => net.set_block(&peer_sock, &obs_sock, true),
            Cause::PeerEndpointClose { code } => {
                if plan.observer_is_client {
                    pair.server_ep.close(VarInt::try_from_u64(*code).unwrap(), b"endpoint")
                } else {
                    pair.client_ep.close(VarInt::try_from_u64(*code).unwrap(), b"endpoint")
                }
            }
            Cause::LocalEndpointClose { code } => {
                if plan.observer_is_client {
                    pair.client_ep.close(VarInt::try_from_u64(*code).unwrap(), b"endpoint")
                } else {
                    pair.server_ep.close(VarInt::try_from_u64(*code).unwrap(), b"endpoint")
                }
            }
            Cause::PeerDropsAllHandles => {
                for t in peer_tasks.drain(..) {
                    t.abort();
                }
                tokio::task::yield_now().await;
                held.lock().unwrap().clear();
            }
            _ => {}
        }
        let dropped_peer = matches!(plan.cause, Cause::PeerDropsAllHandles);
        let peer = if dropped_peer {
            drop(peer);
            None
        } else {
            Some(peer)
        };
        let bound = match plan.cause {
            Cause::Blackhole | Cause::InboundCut => Duration::from_millis(plan.idle_ms) + Duration::from_secs(30),
            Cause::PeerDropsAllHandles => Duration::from_secs(10),
            _ => Duration::from_secs(30),
        };
        let calls = battery.calls.clone();
        sut::wait_until(bound, move || calls.lock().unwrap().iter().all(|c| c.res.is_some())).await;
        later_battery(&obs, &net, &mut battery).await;
        if dropped_peer {
            // background processing on the dropping side must stop: no transmissions after a drain period
            tokio::time::sleep(Duration::from_secs(3)).await;
            let a = net.node_counts(&peer_sock).0;
            tokio::time::sleep(Duration::from_secs(60)).await;
            let b = net.node_counts(&peer_sock).0;
            peer_tx_after = Some((a, b));
        }
        let calls = battery.calls.lock().unwrap().clone();
        drop(peer);
        drop(pair);
        Ok::<_, String>((calls, t0, bound.as_micros() as u64, battery.blocked_open, peer_tx_after))
    });
    sut::finish_exec(&mut ex, &netslot, trace);
    if !out.panics.is_empty() {
        ex.violation("C09/panic", out.panics.join(" | "));
        return ex;
    }
    match out.value {
        None => ex.violation("C09/run-did-not-finish", "exceeded 600 s simulated".into()),
        Some(Err(e)) => ex.violation("C09/setup", e),
        Some(Ok((calls, t0, bound_us, blocked_open, peer_tx))) => {
            ex.nontrivial = calls.iter().filter(|c| c.started_before_cause).count() >= 6;
            ex.probe("pending_calls", calls.iter().filter(|c| c.started_before_cause).count() as u64);
            ex.probe("later_calls", calls.iter().filter(|c| !c.started_before_cause).count() as u64);
            ex.probe("open_blocked_on_credit", blocked_open as u64);
            ex.fault(cause_kind(&plan.cause), 1);
            let who = if plan.observer_is_client { "client" } else { "server" };
            judge(&mut ex, &plan.cause, &calls, t0, bound_us, who);
            if let Some((a, b)) = peer_tx {
                if b > a && !ex.is_violation() {
                    ex.violation("C09/background-keeps-running", format!("{} datagrams were still transmitted by the side that had dropped every handle, 3..63 s after the drop", b - a));
                }
            }
        }
    }
    ex
}

pub struct C09E2E;

impl TypedScenario for C09E2E {
    type Plan = Plan;
    fn name(&self) -> &'static str {
        "e2e-termination"
    }
    fn budget(&self, tier: Tier) -> usize {
        match tier {
            Tier::Quick => 7000,
            Tier::Thorough => 1_000_000,
        }
    }
    fn generate(&self, seed: u64, index: usize, _tier: Tier) -> Plan {
        gen_plan(seed, index)
    }
    fn execute(&self, plan: &Plan, trace: bool) -> Exec {
        execute(plan, trace)
    }
    fn faulty(&self) -> bool {
        true
    }
    fn shrink(&self, plan: &Plan) -> Vec<Plan> {
        let v = serde_json::to_value(plan).unwrap();
        let mut c = shrink_num(&v, "/clones", 1);
        c.extend(shrink_num(&v, "/delay_us", 0));
        if let Some(x) = set_ptr(&v, "/block_open", serde_json::json!(false)) {
            c.push(x);
        }
        c.into_iter().filter_map(|v| serde_json::from_value(v).ok()).collect()
    }
}

// ---- (b) RAW ---------------------------------------------------------------------------------------

#[derive(Serialize, Deserialize, Clone, Debug)]
pub struct RawPlan {
    pub seed: u64,
    pub rt: RtKnobs,
    pub net: NetCfg,
    pub server_under_test: bool,
    pub cause: Cause,
    pub clones: usize,
    /// the raw peer leaves a stream with an incomplete preamble open before the cause
    pub stalled_stream: u8,
    /// instead of a peer-side cause: the application drops every handle
    pub app_drops_all: bool,
    /// server under test: further valid extended-CONNECT requests the raw client leaves open
    /// on the same connection before the cause (the first waits in the hand-off queue nobody
    /// drains any more, the others must be refused - the worker must not wait for room)
    #[serde(default)]
    pub extra_requests: u8,
    /// the raw peer has its QPACK encoder (bit 0) / decoder (bit 1) stream open, as browsers do:
    /// when the connection ends every stream of the driver fails at once, and whichever the
    /// worker looks at first must not change the reported cause
    #[serde(default)]
    pub qpack_streams: u8,
}

fn cause_kind(c: &Cause) -> &'static str {
    match c {
        Cause::PeerClose { .. } => "termination:peer_close",
        Cause::LocalClose { .. } => "termination:local_close",
        Cause::Blackhole => "termination:black_hole_both_ways",
        Cause::InboundCut => "termination:inbound_cut",
        Cause::PeerEndpointClose { .. } => "termination:peer_endpoint_closed",
        Cause::LocalEndpointClose { .. } => "termination:local_endpoint_closed",
        Cause::PeerDropsAllHandles => "termination:peer_drops_all_handles",
        Cause::Capsule { .. } => "termination:close_capsule",
        Cause::ProtocolViolation { .. } => "termination:protocol_violation",
        Cause::CleanFin => "termination:connect_stream_fin",
    }
}

pub fn exec_raw(plan: &RawPlan, trace: bool) -> Exec {
    let mut ex = Exec::new();
    let plan = Arc::new(plan.clone());
    let p2 = plan.clone();
    let netslot: Arc<Mutex<Option<SimNet>>> = Arc::new(Mutex::new(None));
    let ns2 = netslot.clone();
    let out = simrt::run(&plan.rt, plan.seed, Duration::from_secs(600), move || async move {
        let plan = p2;
        let net = SimNet::new(plan.net.clone(), trace);
        *ns2.lock().unwrap() = Some(net.clone());
        let mut r = Rng::new(plan.seed, "c09-raw");
        let mut k = EpKnobs::default();
        k.idle_timeout_ms = Some(20_000);
        let mut ctx = sut::raw_established(&net, plan.server_under_test, &k, &mut r, "/c09").await?;
        let mut keep: Vec<Box<dyn std::any::Any + Send>> = Vec::new();
        for (bit, ty) in [(1u8, rc::STREAM_QPACK_ENC), (2u8, rc::STREAM_QPACK_DEC)] {
            if plan.qpack_streams & bit != 0 {
                let mut s = ctx.raw.open_uni().await.map_err(|e| format!("{e:?}"))?;
                let _ = s.write_all(&rc::varint(ty)).await;
                keep.push(Box::new(s));
            }
        }
        if plan.qpack_streams != 0 {
            tokio::time::sleep(Duration::from_millis(30)).await;
        }
        if plan.server_under_test {
            for i in 0..plan.extra_requests {
                let (mut s, rcv) = ctx.raw.open_bi().await.map_err(|e| format!("{e:?}"))?;
                let _ = s.write_all(&rc::headers_frame(&rc::connect_request_fields("10.0.0.1:4433", &format!("/c09-extra-{i}")), rc::EncStyle::PlainLiteral)).await;
                keep.push(Box::new((s, rcv)));
            }
            if plan.extra_requests > 0 {
                tokio::time::sleep(Duration::from_millis(50)).await;
            }
        }
        match plan.stalled_stream {
            1 => {
                let (mut s, rcv) = ctx.raw.open_bi().await.map_err(|e| format!("{e:?}"))?;
                let _ = s.write_all(&[0x40]).await; // first byte of the 2-byte signal
                keep.push(Box::new((s, rcv)));
            }
            2 => {
                let mut s = ctx.raw.open_uni().await.map_err(|e| format!("{e:?}"))?;
                let _ = s.write_all(&[0x40]).await;
                keep.push(Box::new(s));
            }
            // a complete reserved (GREASE) frame first, then silence / then the first byte of the signal
            3 | 4 => {
                let (mut s, rcv) = ctx.raw.open_bi().await.map_err(|e| format!("{e:?}"))?;
                let _ = s.write_all(if plan.stalled_stream == 3 { &[0x21, 0x00] } else { &[0x7c, 0xad, 0x02, 0xab, 0xcd, 0x40] /* type 0x1f * 500 + 0x21, 2 payload bytes */ }).await;
                keep.push(Box::new((s, rcv)));
            }
            _ => {}
        }
        if plan.app_drops_all {
            // the application lets go of everything; the peer must see the connection closed
            net.quiesce(Duration::from_millis(50), Duration::from_secs(5)).await;
            let t0 = net.now_us();
            let sut::RawCtx { sut: app_conn, raw, control, req_send, req_recv, sut_sock, keep: endpoints, .. } = ctx;
            drop(app_conn);
            let closed = tokio::time::timeout(Duration::from_secs(10), raw.closed()).await.ok();
            tokio::time::sleep(Duration::from_secs(3)).await;
            let a = net.node_counts(&sut_sock).0;
            tokio::time::sleep(Duration::from_secs(40)).await;
            let b = net.node_counts(&sut_sock).0;
            // the raw peer's own handles and both endpoints stay alive until here
            drop((control, req_send, req_recv, endpoints, keep));
            return Ok::<_, String>((Vec::new(), t0, 0, Some((closed.map(|e| format!("{e:?}")), a, b))));
        }
        let sut_conn = ctx.sut.clone();
        let mut battery = start_battery(&sut_conn, &net, plan.clones, false).await;
        net.quiesce(Duration::from_millis(50), Duration::from_secs(5)).await;
        let t0 = net.now_us();
        net.note("cause");
        match &plan.cause {
            Cause::Capsule { code, reason_hex } => {
                let _ = ctx.req_send.write_all(&rc::frame(rc::FRAME_DATA, &rc::close_capsule(*code, &harness::unhex(reason_hex)))).await;
            }
            Cause::CleanFin => {
                let _ = ctx.req_send.finish();
            }
            Cause::ProtocolViolation { kind } => match kind {
                0 => {
                    let _ = ctx.control.write_all(&rc::frame(rc::FRAME_DATA, b"data on control")).await;
                }
                1 => {
                    let _ = ctx.control.write_all(&rc::frame(rc::FRAME_SETTINGS, &[])).await;
                }
                2 => {
                    let _ = ctx.control.finish();
                }
                3 => {
                    let _ = ctx.req_send.reset(0u32.into());
                }
                4 => {
                    let mut s = ctx.raw.open_uni().await.map_err(|e| format!("{e:?}"))?;
                    let _ = s.write_all(&rc::wt_uni_header(3)).await;
                    keep.push(Box::new(s));
                }
                _ => {
                    // a datagram whose quarter stream id is out of range
                    let _ = ctx.raw.send_datagram(rc::varint(1 << 61).into());
                }
            },
            Cause::PeerClose { code, reason_hex } => ctx.raw.close(quinn_varint(*code), &harness::unhex(reason_hex)),
            _ => {}
        }
        let calls = battery.calls.clone();
        sut::wait_until(Duration::from_secs(30), move || calls.lock().unwrap().iter().all(|c| c.res.is_some())).await;
        later_battery(&sut_conn, &net, &mut battery).await;
        let calls = battery.calls.lock().unwrap().clone();
        drop(keep);
        Ok::<_, String>((calls, t0, 30_000_000, None))
    });
    sut::finish_exec(&mut ex, &netslot, trace);
    if !out.panics.is_empty() {
        ex.violation("C09/panic", out.panics.join(" | "));
        return ex;
    }
    match out.value {
        None => ex.violation("C09/run-did-not-finish", "exceeded 600 s simulated".into()),
        Some(Err(e)) => ex.violation("C09/setup", e),
        Some(Ok((calls, t0, bound_us, dropped))) => {
            ex.nontrivial = true;
            let who = if plan.server_under_test { "server" } else { "client" };
            if let Some((closed, a, b)) = dropped {
                ex.fault("application_drops_every_handle", 1);
                match closed {
                    None => ex.violation(
                        "C09/peer-not-told-of-drop",
                        format!("{who}: the application dropped every handle (stalled peer stream kind {}), but the peer did not see the connection closed within 10 s", plan.stalled_stream),
                    ),
                    Some(_) if b > a => ex.violation("C09/background-keeps-running", format!("{who}: {} datagrams transmitted 3..43 s after every handle was dropped", b - a)),
                    _ => {}
                }
            } else {
                ex.probe("pending_calls", calls.iter().filter(|c| c.started_before_cause).count() as u64);
                ex.fault(cause_kind(&plan.cause), 1);
                ex.fault("peer_stream_stalled", (plan.stalled_stream > 0) as u64);
                ex.fault("extra_connect_requests_left_open", if plan.server_under_test { plan.extra_requests as u64 } else { 0 });
                judge(&mut ex, &plan.cause, &calls, t0, bound_us, who);
            }
        }
    }
    ex
}

fn quinn_varint(v: u64) -> wtransport::quinn::VarInt {
    wtransport::quinn::VarInt::from_u64(v).unwrap()
}

pub struct C09Raw;

impl TypedScenario for C09Raw {
    type Plan = RawPlan;
    fn name(&self) -> &'static str {
        "raw-termination"
    }
    fn budget(&self, tier: Tier) -> usize {
        match tier {
            Tier::Quick => 6000,
            Tier::Thorough => 750_000,
        }
    }
    fn generate(&self, seed: u64, index: usize, _tier: Tier) -> RawPlan {
        let mut rng = Rng::new(seed, "c09-rawplan");
        let mut net = NetCfg::clean(rng.next_u64());
        net.lat_min_us = *rng.pick(&[200u64, 1_000, 5_000]);
        let rl = *rng.pick(&[0usize, 3, 100, 1024]);
        let reason: String = (0..rl).map(|i| (b'a' + (i % 26) as u8) as char).collect();
        let quic_rl = *rng.pick(&[0usize, 3, 100, 1024, 1025, 1060]);
        let cause = match index % 10 {
            0 | 1 => Cause::Capsule { code: rng.next_u64() as u32, reason_hex: harness::hex(reason.as_bytes()) },
            2 => Cause::CleanFin,
            3..=8 => Cause::ProtocolViolation { kind: (index % 10 - 3) as u8 },
            _ => Cause::PeerClose { code: rng.range(0, (1 << 62) - 1), reason_hex: harness::hex(&rng.bytes(quic_rl)) },
        };
        let app_drops_all = rng.chance_pm(250);
        RawPlan { seed, rt: RtKnobs::from_rng(&mut rng), net, server_under_test: index % 2 == 0, cause, clones: rng.usize(1, 3), stalled_stream: rng.below(5) as u8, app_drops_all, extra_requests: if rng.chance_pm(350) { rng.range(1, 4) as u8 } else { 0 }, qpack_streams: if rng.chance_pm(400) { rng.range(1, 3) as u8 } else { 0 } }
    }
    fn execute(&self, plan: &RawPlan, trace: bool) -> Exec {
        exec_raw(plan, trace)
    }
    fn faulty(&self) -> bool {
        true
    }
    fn shrink(&self, plan: &RawPlan) -> Vec<RawPlan> {
        let v = serde_json::to_value(plan).unwrap();
        let mut c = shrink_num(&v, "/clones", 1);
        c.extend(shrink_num(&v, "/stalled_stream", 0));
        c.extend(shrink_num(&v, "/extra_requests", 0));
        c.extend(shrink_num(&v, "/qpack_streams", 0));
        c.into_iter().filter_map(|v| serde_json::from_value(v).ok()).collect()
    }
}

// ---- (c) UNIT-SYNC -----------------------------------------------------------------------------------

#[derive(Serialize, Deserialize, Clone, Debug)]
pub struct SyncPlan {
    pub seed: u64,
    pub pct: bool,
    pub setters: Vec<(u32, u32, bool)>, // (value, yields before set, drops without setting)
    pub getters: Vec<(u32, Option<u32>)>, // (yields before result(), cancel at poll n)
    pub watch_closed: bool,
    pub chan: Option<ChanPlan>,
}

#[derive(Serialize, Deserialize, Clone, Debug)]
pub struct ChanPlan {
    pub capacity: usize,
    pub senders: Vec<Vec<u32>>,
    pub receivers: usize,
    pub cancel_recv_at: Option<u32>,
}

pub fn exec_sync(p: &SyncPlan, _trace: bool) -> Exec {
    use std::cell::RefCell;
    use wtransport::verif::{bichannel, shared_result};
    let mut ex = Exec::new();
    ex.nontrivial = true;
    let guard = std::panic::catch_unwind(std::panic::AssertUnwindSafe(|| {
        // ---- shared_result ------------------------------------------------------------------
        let (set, get) = shared_result::<u32>();
        let get = std::rc::Rc::new(get);
        let set_results: RefCell<Vec<(u32, bool)>> = RefCell::new(Vec::new());
        let get_results: RefCell<Vec<Option<u32>>> = RefCell::new(Vec::new());
        let closed_seen = RefCell::new(false);
        let mut problems: Vec<(String, String)> = Vec::new();
        let (steps, cancelled, hash);
        {
            let mut e = exec::Exec::new(Rng::new(p.seed, "c09-sync"), p.pct);
            for (value, yields, drops) in p.setters.iter().cloned() {
                let s = set.clone();
                let sr = &set_results;
                e.spawn(
                    async move {
                        for _ in 0..yields {
                            exec::yield_now().await;
                        }
                        if !drops {
                            let won = s.set(value);
                            sr.borrow_mut().push((value, won));
                        }
                        drop(s);
                    },
                    None,
                );
            }
            for (yields, cancel) in p.getters.iter().cloned() {
                let g = get.clone();
                let gr = &get_results;
                e.spawn(
                    async move {
                        for _ in 0..yields {
                            exec::yield_now().await;
                        }
                        let r = g.result().await;
                        gr.borrow_mut().push(r);
                    },
                    cancel,
                );
            }
            // the holder of a setter that waits for closed() stands for the driver worker, which
            // always publishes a result before it goes away; without any value ever being set the
            // getters would (rightly) wait for that holder and the scenario would deadlock itself
            let someone_sets = p.setters.iter().any(|s| !s.2);
            if p.watch_closed && someone_sets {
                let s = set.clone();
                let cs = &closed_seen;
                e.spawn(
                    async move {
                        s.closed().await;
                        *cs.borrow_mut() = true;
                    },
                    None,
                );
            }
            drop(set);
            let out = e.run(100_000);
            // getters still hold `get` (Rc) until their tasks finish; the closed() watcher can only
            // resolve once every getter handle is gone
            drop(get);
            let out2 = if out != exec::Outcome::AllDone { e.run(100_000) } else { out };
            steps = e.steps;
            cancelled = e.cancelled;
            hash = e.schedule_hash;
            let sets = set_results.borrow();
            let gets = get_results.borrow();
            let winners: Vec<&(u32, bool)> = sets.iter().filter(|s| s.1).collect();
            if !sets.is_empty() && winners.len() != 1 {
                problems.push(("C09/set-once".into(), format!("{} of {} set() calls returned true: {:?}", winners.len(), sets.len(), *sets)));
            }
            let expected: Option<u32> = winners.first().map(|w| w.0);
            for g in gets.iter() {
                if *g != expected {
                    problems.push(("C09/readers-disagree".into(), format!("result() returned {g:?}; the set-once cell holds {expected:?} (sets {:?})", *sets)));
                    break;
                }
            }
            let live_getters = p.getters.iter().filter(|g| g.1.is_none()).count();
            if gets.len() < live_getters || gets.len() > p.getters.len() {
                problems.push(("C09/result-hangs".into(), format!("{} of {} uncancelled result() calls returned ({out2:?})", gets.len(), live_getters)));
            }
            if p.watch_closed && someone_sets && !*closed_seen.borrow() {
                problems.push(("C09/closed-not-signalled".into(), format!("closed() did not resolve after every getter was gone ({out2:?})")));
            }
        }
        // ---- bichannel -------------------------------------------------------------------------
        if let Some(cp) = &p.chan {
            let (a, b) = bichannel::<u32>(cp.capacity.max(1));
            let a = std::rc::Rc::new(a);
            let b = std::rc::Rc::new(b);
            let received: RefCell<Vec<u32>> = RefCell::new(Vec::new());
            let mut e = exec::Exec::new(Rng::new(p.seed, "c09-chan"), p.pct);
            let mut sent_all: Vec<u32> = Vec::new();
            for vals in &cp.senders {
                sent_all.extend(vals.iter().cloned());
                let a2 = a.clone();
                let vals = vals.clone();
                e.spawn(
                    async move {
                        for v in vals {
                            let _ = a2.send(v).await;
                            exec::yield_now().await;
                        }
                    },
                    None,
                );
            }
            for ri in 0..cp.receivers.max(1) {
                let b2 = b.clone();
                let rc_ = &received;
                // only the first receiver may be cancelled, and it is followed by another one
                let cancel = if ri == 0 { cp.cancel_recv_at } else { None };
                e.spawn(
                    async move {
                        while let Some(v) = b2.recv().await {
                            rc_.borrow_mut().push(v);
                        }
                    },
                    cancel,
                );
            }
            drop(a);
            let out = e.run(200_000);
            let mut got = received.borrow().clone();
            let mut want = sent_all.clone();
            got.sort();
            want.sort();
            if got != want {
                problems.push(("C09/bichannel-exactly-once".into(), format!("sent {want:?}, received {got:?} ({out:?}); cancelled recv at {:?}", cp.cancel_recv_at)));
            }
            if out != exec::Outcome::AllDone {
                problems.push(("C09/bichannel-hangs".into(), format!("{out:?}")));
            }
            // per-sender FIFO
            for vals in &cp.senders {
                let order: Vec<u32> = received.borrow().iter().filter(|v| vals.contains(v)).cloned().collect();
                if cp.receivers <= 1 && order != *vals {
                    problems.push(("C09/bichannel-order".into(), format!("sender order {vals:?} received as {order:?}")));
                }
            }
        }
        (problems, steps, cancelled, hash)
    }));
    match guard {
        Err(_) => ex.violation("C09/panic", "panic in shared_result / bichannel under the seeded executor".into()),
        Ok((problems, steps, cancelled, hash)) => {
            ex.trace_hash = hash;
            ex.probe("executor_steps", steps);
            ex.fault("task_cancelled_at_chosen_poll", cancelled as u64);
            if let Some((c, d)) = problems.into_iter().next() {
                ex.violation(&c, d);
            }
        }
    }
    ex
}

pub struct C09Sync;

impl TypedScenario for C09Sync {
    type Plan = SyncPlan;
    fn name(&self) -> &'static str {
        "unit-sync"
    }
    fn budget(&self, tier: Tier) -> usize {
        match tier {
            Tier::Quick => 200_000,
            Tier::Thorough => 20_000_000,
        }
    }
    fn generate(&self, seed: u64, _index: usize, _tier: Tier) -> SyncPlan {
        let mut rng = Rng::new(seed, "c09-syncplan");
        let ns = rng.usize(0, 3);
        let setters = (0..ns).map(|i| (i as u32 + 1, rng.below(4) as u32, rng.chance_pm(250))).collect();
        let ng = rng.usize(1, 4);
        let getters = (0..ng).map(|_| (rng.below(4) as u32, if rng.chance_pm(250) { Some(rng.range(1, 5) as u32) } else { None })).collect();
        let chan = if rng.coin() {
            let nsend = rng.usize(1, 3);
            let mut next = 0u32;
            let senders = (0..nsend)
                .map(|_| {
                    (0..rng.usize(0, 5))
                        .map(|_| {
                            next += 1;
                            next
                        })
                        .collect()
                })
                .collect();
            let receivers = rng.usize(1, 3);
            Some(ChanPlan { capacity: rng.usize(1, 3), senders, receivers, cancel_recv_at: if receivers > 1 && rng.chance_pm(400) { Some(rng.range(1, 6) as u32) } else { None } })
        } else {
            None
        };
        SyncPlan { seed, pct: rng.coin(), setters, getters, watch_closed: rng.coin(), chan }
    }
    fn execute(&self, plan: &SyncPlan, trace: bool) -> Exec {
        exec_sync(plan, trace)
    }
    fn shrink(&self, plan: &SyncPlan) -> Vec<SyncPlan> {
        let v = serde_json::to_value(plan).unwrap();
        let mut c = shrink_array(&v, "/setters", 0);
        c.extend(shrink_array(&v, "/getters", 1));
        if let Some(x) = set_ptr(&v, "/chan", serde_json::Value::Null) {
            c.push(x);
        }
        c.into_iter().filter_map(|v| serde_json::from_value(v).ok()).collect()
    }
}

// ---- termination before the session exists ---------------------------------------------------------

/// The peer closes the QUIC connection (code, reason) while the session is still being set up:
/// `stage` 0 right after the QUIC handshake, 1 after its control stream and SETTINGS, 2 after
/// the CONNECT request is on the wire (server under test: the application then waits before it
/// accepts). Whatever call of the set-up is pending or made next names the peer's close.
#[derive(Serialize, Deserialize, Clone, Debug)]
pub struct EarlyPlan {
    pub seed: u64,
    pub rt: RtKnobs,
    pub net: NetCfg,
    pub server_under_test: bool,
    pub stage: u8,
    pub code: u64,
    pub reason_hex: String,
}

pub fn exec_early(plan: &EarlyPlan, trace: bool) -> Exec {
    use crate::rawpeer as rp;
    let mut ex = Exec::new();
    let plan = Arc::new(plan.clone());
    let p2 = plan.clone();
    let netslot: Arc<Mutex<Option<SimNet>>> = Arc::new(Mutex::new(None));
    let ns2 = netslot.clone();
    let out = simrt::run(&plan.rt, plan.seed, Duration::from_secs(300), move || async move {
        let plan = p2;
        let net = SimNet::new(plan.net.clone(), trace);
        *ns2.lock().unwrap() = Some(net.clone());
        let mut r = Rng::new(plan.seed, "c09-early");
        let k = EpKnobs::default();
        let reason = harness::unhex(&plan.reason_hex);
        // what the set-up calls of the endpoint under test reported, in order
        let mut reports: Vec<(String, String)> = Vec::new();
        if plan.server_under_test {
            let s = sut::sut_server(&net, &k, &mut r);
            let (rep, _rs) = rp::raw_client_endpoint(&net, rp::RAW_CLIENT_ADDR.parse().unwrap(), sut::raw_transport(), r.seed32(), b"h3");
            let sep = s.ep;
            let app = tokio::spawn(async move {
                let mut rep: Vec<(String, String)> = Vec::new();
                let inc = sep.accept().await;
                match tokio::time::timeout(Duration::from_secs(60), inc).await {
                    Err(_) => rep.push(("incoming_session".into(), "pending 60 s".into())),
                    Ok(Err(e)) => rep.push(("incoming_session".into(), format!("{e:?}"))),
                    Ok(Ok(req)) => {
                        // the application takes its time; the peer is gone when it accepts
                        tokio::time::sleep(Duration::from_millis(500)).await;
                        match tokio::time::timeout(Duration::from_secs(60), req.accept()).await {
                            Err(_) => rep.push(("accept".into(), "pending 60 s".into())),
                            Ok(Err(e)) => rep.push(("accept".into(), format!("{e:?}"))),
                            Ok(Ok(conn)) => {
                                let e = tokio::time::timeout(Duration::from_secs(60), conn.accept_bi()).await;
                                rep.push(("accept_bi".into(), format!("{:?}", e.map(|x| x.map(|_| ())))));
                            }
                        }
                    }
                }
                (rep, sep)
            });
            let conn = rep.connect(s.addr, "localhost").map_err(|e| format!("{e:?}"))?.await.map_err(|e| format!("raw handshake: {e:?}"))?;
            let mut keep: Vec<Box<dyn std::any::Any + Send>> = Vec::new();
            if plan.stage >= 1 {
                keep.push(Box::new(rp::open_control(&conn, &rc::default_peer_settings()).await?));
            }
            if plan.stage >= 2 {
                let (mut rs, rr) = conn.open_bi().await.map_err(|e| format!("{e:?}"))?;
                rp::write_all(&mut rs, &rc::headers_frame(&rc::connect_request_fields("10.0.0.1:4433", "/early"), rc::EncStyle::PlainLiteral)).await?;
                keep.push(Box::new((rs, rr)));
            }
            net.quiesce(Duration::from_millis(20), Duration::from_secs(5)).await;
            conn.close(quinn_varint(plan.code), &reason);
            let (rep2, _sep) = app.await.map_err(|e| format!("{e:?}"))?;
            reports = rep2;
            drop(keep);
        } else {
            let (rep, _rs) = rp::raw_server_endpoint(&net, rp::RAW_SERVER_ADDR.parse().unwrap(), sut::raw_transport(), r.seed32());
            let c = sut::sut_client(&net, &k, &mut r);
            let cep = c.ep;
            let app = tokio::spawn(async move {
                let res = tokio::time::timeout(Duration::from_secs(60), cep.connect(format!("https://{}/early", rp::RAW_SERVER_ADDR))).await;
                let rep = match res {
                    Err(_) => ("connect".to_string(), "pending 60 s".to_string()),
                    Ok(Err(e)) => ("connect".to_string(), format!("{e:?}")),
                    Ok(Ok(_)) => ("connect".to_string(), "Ok".to_string()),
                };
                (vec![rep], cep)
            });
            let inc = rep.accept().await.ok_or("raw endpoint closed")?;
            let conn = inc.await.map_err(|e| format!("raw accept: {e:?}"))?;
            let mut keep: Vec<Box<dyn std::any::Any + Send>> = Vec::new();
            if plan.stage >= 1 {
                keep.push(Box::new(rp::open_control(&conn, &rc::default_peer_settings()).await?));
            }
            if plan.stage >= 2 {
                // wait for the client's request, answer nothing
                if let Ok(Ok(x)) = tokio::time::timeout(Duration::from_secs(30), conn.accept_bi()).await {
                    keep.push(Box::new(x));
                }
            }
            net.quiesce(Duration::from_millis(20), Duration::from_secs(5)).await;
            conn.close(quinn_varint(plan.code), &reason);
            let (rep2, _cep) = app.await.map_err(|e| format!("{e:?}"))?;
            reports = rep2;
            drop(keep);
        }
        Ok::<_, String>(reports)
    });
    sut::finish_exec(&mut ex, &netslot, trace);
    if !out.panics.is_empty() {
        ex.violation("C09/panic", out.panics.join(" | "));
        return ex;
    }
    match out.value {
        None => ex.violation("C09/run-did-not-finish", "exceeded 300 s simulated".into()),
        Some(Err(e)) => ex.violation("C09/setup", e),
        Some(Ok(reports)) => {
            ex.nontrivial = !reports.is_empty();
            ex.fault("termination:peer_close_before_session", 1);
            let who = if plan.server_under_test { "server" } else { "client" };
            let want_code = format!("code: {}", plan.code);
            let want_reason = format!("{:?}", harness::unhex(&plan.reason_hex));
            for (call, got) in &reports {
                if got.contains("pending 60 s") {
                    ex.violation("C09/pending-call-hangs", format!("{who}: peer closed ({}, {} reason bytes) at set-up stage {}; {call} was still pending 60 s later", plan.code, plan.reason_hex.len() / 2, plan.stage));
                    return ex;
                }
                let names_peer = got.contains("ApplicationClosed") && got.contains(&want_code) && got.contains(&want_reason);
                if !names_peer {
                    ex.violation(
                        "C09/misattributed",
                        format!("{who}: the peer closed the connection with code {} and reason {want_reason} at set-up stage {}; {call} reported {got}", plan.code, plan.stage),
                    );
                    return ex;
                }
            }
        }
    }
    ex
}

pub struct C09Early;

impl TypedScenario for C09Early {
    type Plan = EarlyPlan;
    fn name(&self) -> &'static str {
        "raw-early-termination"
    }
    fn budget(&self, tier: Tier) -> usize {
        match tier {
            Tier::Quick => 1500,
            Tier::Thorough => 150_000,
        }
    }
    fn generate(&self, seed: u64, index: usize, _tier: Tier) -> EarlyPlan {
        let mut rng = Rng::new(seed, "c09-earlyplan");
        let mut net = NetCfg::clean(rng.next_u64());
        net.lat_min_us = *rng.pick(&[200u64, 1_000, 5_000]);
        let rl = *rng.pick(&[0usize, 3, 100]);
        EarlyPlan {
            seed,
            rt: RtKnobs::from_rng(&mut rng),
            net,
            server_under_test: index % 2 == 0,
            stage: ((index / 2) % 3) as u8,
            code: *rng.pick(&[0u64, 1, 77, 0x100, 0x10c, (1 << 62) - 1]),
            reason_hex: harness::hex(&rng.bytes(rl)),
        }
    }
    fn execute(&self, plan: &EarlyPlan, trace: bool) -> Exec {
        exec_early(plan, trace)
    }
}

pub fn def() -> PropertyDef {
    PropertyDef {
        id: "C09",
        scenarios: vec![Box::new(Typed(C09E2E)), Box::new(Typed(C09Raw)), Box::new(Typed(C09Sync)), Box::new(Typed(C09Early))],
        rule: "e2e-termination: real client and server; the observer (either role) has a battery of calls pending over 1-3 cloned handles - accept_uni x2, accept_bi, receive_datagram x2, closed, read on a stream that never gets data, write_all of 2 MiB against a full window, stopped, and (half of the runs) open_uni blocked on stream credit - when, at a generated instant, one of seven causes ends the connection: peer close(code, reason), local close, black hole in both directions, inbound-only cut, peer endpoint closed, local endpoint closed, peer drops every handle. Oracle: every pending call completes within 30 s simulated of the cause (idle timeout + 30 s for the black-hole causes, 10 s for dropped handles) and a second battery of 12 fresh calls (accepts, opens, send_datagram, closed, write / finish / stopped / read on held streams) each returns within 5 s; no call succeeds after the cause; each connection-level error is in allowed(cause): the peer's exact code and reason, LocallyClosed for local causes or where the library shut the transport down in response, TimedOut for black holes; stream-level calls report NotConnected; no two different local protocol errors; no panic in any task (process-wide panic hook); after the peer drops every handle its node transmits nothing in a 60 s window following a 3 s drain. raw-termination: same battery on the endpoint under test against a scripted raw peer, causes: close capsule, clean FIN, six protocol violations (DATA on control, second SETTINGS, control FIN, CONNECT stream reset, WebTransport stream with an invalid session id, datagram with an out-of-range quarter id), raw QUIC close; optionally a peer stream stalled mid-preamble (also after a complete reserved frame), the peer's QPACK encoder / decoder streams open, and 1-4 further valid CONNECT requests left open on the same connection (server under test); and runs in which the application drops every handle and the raw peer must see the connection closed within 10 s. raw-early-termination: the raw peer closes the QUIC connection (code, reason) while the session is being set up - right after the handshake, after its SETTINGS, or after the CONNECT request is on the wire - and the pending set-up call (incoming session, SessionRequest::accept made 500 ms later, connect) must end within 60 s naming exactly that code and reason. unit-sync: shared_result and bichannel (through the cfg hook) under a seeded executor that picks the next runnable task itself (random and PCT-style priorities) and cancels tasks at chosen polls: exactly one set() wins, every result() that returns equals the winner (None only when nobody set), uncancelled readers all return, closed() resolves once every getter is gone; bichannel delivers every sent value exactly once, in per-sender order, across receiver cancellation. Non-trivial = at least 6 pending calls (E2E) / every run (others); distinct = distinct plan hashes.",
        assumptions: vec![
            "bounds are in simulated seconds and generous; liveness is only demanded after the cause",
            "current-thread runtime / hand-written executor: data races inside tokio primitives are out of scope",
            "raw peer + reference codec are harness code",
        ],
        real_components: vec!["wtransport", "wtransport-proto", "quinn", "quinn-proto", "rustls", "ring", "tokio scheduler + timer wheel + sync primitives"],
        stub_components: vec!["UDP sockets (SimNet with partitions / black holes)", "OS clock", "raw peer (raw-termination)", "task scheduler (unit-sync: hand-written seeded executor)"],
    }
}
