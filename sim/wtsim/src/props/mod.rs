pub mod c01;
pub mod c02;
pub mod c03;
pub mod c04;
pub mod c05;
pub mod c06;
pub mod c07;
pub mod c08;
pub mod c09;
pub mod c10;
pub mod c12;
pub mod c13;
pub mod c15;
pub mod c16;
pub mod c17;
pub mod c18;
pub mod c20;

use crate::core::PropertyDef;

pub fn all() -> Vec<PropertyDef> {
    vec![c01::def(), c02::def(), c03::def(), c04::def(), c05::def(), c06::def(), c07::def(), c08::def(), c09::def(), c10::def(), c12::def(), c13::def(), c15::def(), c16::def(), c17::def(), c18::def(), c20::def()]
}
