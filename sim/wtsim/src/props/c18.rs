//! C18 — only well-formed WebTransport requests and responses are admitted (in situ).

use crate::core::*;
use crate::harness;
use crate::rawscript::*;
use crate::refcodec as rc;
use crate::rng::Rng;
use crate::simnet::{NetCfg, SimNet};
use crate::simrt::{self, RtKnobs};
use crate::sut;
use serde::{Deserialize, Serialize};
use std::sync::{Arc, Mutex};
use std::time::Duration;
use wtransport::endpoint::ConnectOptions;
use wtransport::error::ConnectingError;

// ---- (a) request admission on the server ---------------------------------------------------

#[derive(Serialize, Deserialize, Clone, Debug)]
pub struct ReqPlan {
    pub base: Script,
    /// per pseudo-header (method, scheme, protocol, authority, path): None = missing
    pub method: Option<String>,
    pub scheme: Option<String>,
    pub protocol: Option<String>,
    pub authority: Option<String>,
    pub path: Option<String>,
    pub extras: Vec<(String, String)>,
    pub style: rc::EncStyle,
    pub close_code: u32,
}

// method tokens are case-sensitive (RFC 9110 9.1): "connect" is not CONNECT
const METHODS: [Option<&str>; 11] = [Some("CONNECT"), None, Some("GET"), Some("POST"), Some("OPTIONS"), Some("CONNECTX"), Some("connect"), Some("Connect"), Some("CONN"), Some(" CONNECT"), Some("")];
const SCHEMES: [Option<&str>; 7] = [Some("https"), None, Some("http"), Some("wss"), Some("httpsx"), Some("https "), Some("")];
const PROTOCOLS: [Option<&str>; 8] = [Some("webtransport"), None, Some("websocket"), Some("connect-udp"), Some("webtransportx"), Some("web"), Some("webtransport "), Some("")];
const AUTHS: [Option<&str>; 3] = [Some("10.0.0.1:4433"), None, Some("example.org")];
const PATHS: [Option<&str>; 3] = [Some("/probe"), None, Some("/probe?x=1")];

fn req_sweep_len() -> usize {
    METHODS.len() * SCHEMES.len() * PROTOCOLS.len() * AUTHS.len() * PATHS.len()
}

pub fn gen_req(seed: u64, index: usize) -> ReqPlan {
    let mut rng = Rng::new(seed, "c18-req");
    let base = base_script(seed, true);
    let (mi, si, pi, ai, pa) = if index < req_sweep_len() {
        let mut i = index;
        let mi = i % METHODS.len();
        i /= METHODS.len();
        let si = i % SCHEMES.len();
        i /= SCHEMES.len();
        let pi = i % PROTOCOLS.len();
        i /= PROTOCOLS.len();
        let ai = i % AUTHS.len();
        i /= AUTHS.len();
        (mi, si, pi, ai, i % PATHS.len())
    } else {
        // sampled: mostly-right requests with a single defect, arbitrary extras
        let mut v = [0usize; 5];
        if rng.chance_pm(800) {
            let which = rng.usize(0, 4);
            v[which] = rng.usize(1, [METHODS.len(), SCHEMES.len(), PROTOCOLS.len(), AUTHS.len(), PATHS.len()][which] - 1);
        }
        (v[0], v[1], v[2], v[3], v[4])
    };
    let nextra = if index < req_sweep_len() { 0 } else { rng.usize(0, 4) };
    let extras = (0..nextra)
        .map(|i| {
            let name = rng.pick(&["origin", "user-agent", "x-custom", "accept", "sec-webtransport-http3-draft02", "cookie", "x-method", "protocol"]).to_string() + &format!("{i}");
            (name, format!("v{}", rng.range(0, 1000)))
        })
        .collect();
    ReqPlan {
        base,
        method: METHODS[mi].map(String::from),
        scheme: SCHEMES[si].map(String::from),
        protocol: PROTOCOLS[pi].map(String::from),
        authority: AUTHS[ai].map(String::from),
        path: PATHS[pa].map(String::from),
        extras,
        style: *rng.pick(&[rc::EncStyle::PlainLiteral, rc::EncStyle::HuffmanLiteral, rc::EncStyle::Static { huffman: true }, rc::EncStyle::Static { huffman: false }]),
        close_code: rng.next_u64() as u32,
    }
}

fn admissible(p: &ReqPlan) -> bool {
    p.method.as_deref() == Some("CONNECT") && p.scheme.as_deref() == Some("https") && p.protocol.as_deref() == Some("webtransport") && p.authority.is_some() && p.path.is_some()
}

pub fn exec_req(p: &ReqPlan, trace: bool) -> Exec {
    rc::with_stretch(p.base.seed, p.base.stretch_pm, || exec_req_inner(p, trace))
}

fn exec_req_inner(p: &ReqPlan, trace: bool) -> Exec {
    let mut fields: Vec<(String, String)> = Vec::new();
    for (n, v) in [(":method", &p.method), (":scheme", &p.scheme), (":authority", &p.authority), (":path", &p.path), (":protocol", &p.protocol)] {
        if let Some(v) = v {
            fields.push((n.to_string(), v.clone()));
        }
    }
    fields.extend(p.extras.iter().cloned());
    let ok = admissible(p);
    let mut acts = Vec::new();
    let mut control = rc::varint(rc::STREAM_CONTROL);
    control.extend_from_slice(&rc::frame(rc::FRAME_SETTINGS, &rc::settings_payload(&rc::default_peer_settings())));
    acts.push(Act::OpenUni { slot: SLOT_CONTROL });
    acts.push(Act::Write { slot: SLOT_CONTROL, hex: hex(&control) });
    let probe_slot = if ok { SLOT_CONNECT } else { 20 };
    acts.push(Act::OpenBi { slot: probe_slot });
    acts.push(Act::Write { slot: probe_slot, hex: hex(&rc::headers_frame(&fields, p.style)) });
    acts.push(Act::Gap);
    if !ok {
        // a refused request must leave the connection usable: a valid one follows
        acts.push(Act::OpenBi { slot: SLOT_CONNECT });
        acts.push(Act::Write { slot: SLOT_CONNECT, hex: hex(&rc::headers_frame(&rc::connect_request_fields("10.0.0.1:4433", "/script"), rc::EncStyle::PlainLiteral)) });
    }
    acts.push(Act::WaitSession);
    acts.push(Act::Gap);
    acts.push(close_capsule_act(p.close_code, b"c18"));
    let mut s = p.base.clone();
    s.acts = acts;
    s.settle_ms = 500;
    let (mut ex, obs) = run_script(&s, trace, "C18");
    let Some(obs) = obs else { return ex };
    ex.nontrivial = true;
    let desc = format!("request {fields:?}");
    match (&obs.sut, ok) {
        (SutSession::Established { authority, path, headers, .. }, true) => {
            if Some(authority) != p.authority.as_ref() || Some(path) != p.path.as_ref() {
                ex.violation("C18/request-altered", format!("{desc}: application saw authority {authority:?} path {path:?}"));
            }
            for (n, v) in &p.extras {
                if headers.get(n) != Some(v) {
                    ex.violation("C18/request-altered", format!("{desc}: extra field {n} not delivered intact ({:?})", headers.get(n)));
                }
            }
            ex.probe("admitted", 1);
        }
        (other, true) => ex.violation("C18/valid-request-refused", format!("{desc} is a well-formed WebTransport request but the outcome was {other:?} (raw peer: {:?})", obs.raw_close)),
        (SutSession::Established { path, .. }, false) => {
            if path != "/script" {
                ex.violation("C18/malformed-request-admitted", format!("{desc} reached the server application (path {path:?})"));
                return ex;
            }
            // the bad request's own stream must have been refused, with a request-level code
            let bad = obs.slots.get(&20);
            match bad.and_then(|b| b.stopped) {
                Some(c) if c == rc::H3_REQUEST_REJECTED || c == rc::H3_MESSAGE_ERROR => {}
                other => ex.violation("C18/refusal-code", format!("{desc}: the stream was not refused with H3_REQUEST_REJECTED / H3_MESSAGE_ERROR (STOP_SENDING seen: {other:x?})")),
            }
            let closed_ok = obs.app.as_ref().map(|a| a.ended.len() >= 3 && a.ended.iter().all(|(_, e)| matches!(sut::app_closed(e), Some((c, _)) if c == p.close_code as u64))).unwrap_or(false);
            if !closed_ok {
                ex.violation("C18/connection-disturbed", format!("{desc}: the follow-up session did not end cleanly: {:?}, raw peer {:?}", obs.app.as_ref().map(|a| a.ended.clone()), obs.raw_close));
            }
            ex.probe("refused", 1);
        }
        (other, false) => ex.violation(
            "C18/connection-disturbed",
            format!("{desc} must be refused on its own stream only, but the follow-up valid request ended as {other:?} (raw peer: {:?})", obs.raw_close),
        ),
    }
    ex
}

pub struct C18Req;

impl TypedScenario for C18Req {
    type Plan = ReqPlan;
    fn name(&self) -> &'static str {
        "raw-request-admission"
    }
    fn budget(&self, tier: Tier) -> usize {
        match tier {
            Tier::Quick => req_sweep_len() + 4000,
            Tier::Thorough => req_sweep_len() + 500_000,
        }
    }
    fn generate(&self, seed: u64, index: usize, _tier: Tier) -> ReqPlan {
        gen_req(seed, index)
    }
    fn execute(&self, plan: &ReqPlan, trace: bool) -> Exec {
        exec_req(plan, trace)
    }
    fn exhaustive_prefix(&self, _tier: Tier) -> Option<usize> {
        Some(req_sweep_len())
    }
}

// ---- (b) response status on the client ------------------------------------------------------

#[derive(Serialize, Deserialize, Clone, Debug)]
pub struct StatusPlan {
    pub base: Script,
    /// None = no :status field at all
    pub status: Option<String>,
    pub extras: Vec<(String, String)>,
    pub style: rc::EncStyle,
}

const ODD_STATUS: [&str; 24] = [
    "", " ", "+200", "-200", " 200", "200 ", "2 00", "2e2", "200.0", "0x0c8", "abc", "20a", "OK", "two", "99999", "65536", "4294967496", "18446744073709551816", "٢٠٠", "２００", "200\t", "1e3", "+0", "-0",
];

fn status_sweep(tier: Tier) -> usize {
    match tier {
        Tier::Quick => 1200 + ODD_STATUS.len() + 1,
        Tier::Thorough => 65536 + ODD_STATUS.len() + 1,
    }
}

pub fn gen_status(seed: u64, index: usize, tier: Tier) -> StatusPlan {
    let mut rng = Rng::new(seed, "c18-status");
    let base = base_script(seed, false);
    let nint = status_sweep(tier) - ODD_STATUS.len() - 1;
    let status = if index < nint {
        // quick: 0..=1099 plus the top of the u16 range; thorough: every u16
        let v = if tier == Tier::Quick && index >= 1100 { 65436 + (index - 1100) } else { index };
        Some(v.to_string())
    } else if index < nint + ODD_STATUS.len() {
        Some(ODD_STATUS[index - nint].to_string())
    } else if index == nint + ODD_STATUS.len() {
        None
    } else {
        Some(match rng.below(4) {
            0 => rng.range(0, 99).to_string(),
            1 => rng.range(100, 599).to_string(),
            2 => rng.range(600, 70000).to_string(),
            _ => ODD_STATUS[rng.usize(0, ODD_STATUS.len() - 1)].to_string(),
        })
    };
    let nextra = if index < status_sweep(tier) { 0 } else { rng.usize(0, 3) };
    let extras = (0..nextra).map(|i| (format!("x-extra-{i}"), format!("v{}", rng.range(0, 100)))).collect();
    // a status that has its own row in the QPACK static table is sent as an indexed field line
    // (exercises the endpoint's copy of that row); everything else in a sampled style
    let in_table = status.as_ref().map(|s| rc::STATIC_TABLE.iter().any(|(n, v)| *n == ":status" && v == s)).unwrap_or(false);
    let style = if in_table && index < status_sweep(tier) { rc::EncStyle::Static { huffman: false } } else { *rng.pick(&[rc::EncStyle::PlainLiteral, rc::EncStyle::HuffmanLiteral, rc::EncStyle::Static { huffman: false }]) };
    StatusPlan { base, status, extras, style }
}

#[derive(Debug, PartialEq)]
enum StatusClass {
    Accept,
    Reject,
    Malformed,
    /// integer in range but written with leading zeros / more than three digits: the property
    /// does not say; no demand
    Unconstrained,
}

fn classify_status(s: &Option<String>) -> StatusClass {
    let Some(s) = s else { return StatusClass::Malformed };
    if s.is_empty() || !s.bytes().all(|b| b.is_ascii_digit()) {
        return StatusClass::Malformed;
    }
    let Ok(v) = s.parse::<u64>() else { return StatusClass::Malformed };
    if !(100..=599).contains(&v) {
        return StatusClass::Malformed;
    }
    if s.len() != 3 {
        return StatusClass::Unconstrained;
    }
    if (200..=299).contains(&v) {
        StatusClass::Accept
    } else {
        StatusClass::Reject
    }
}

pub fn exec_status(p: &StatusPlan, trace: bool) -> Exec {
    rc::with_stretch(p.base.seed, p.base.stretch_pm, || exec_status_inner(p, trace))
}

fn exec_status_inner(p: &StatusPlan, trace: bool) -> Exec {
    let mut fields: Vec<(String, String)> = Vec::new();
    if let Some(s) = &p.status {
        fields.push((":status".into(), s.clone()));
    }
    fields.extend(p.extras.iter().cloned());
    let mut control = rc::varint(rc::STREAM_CONTROL);
    control.extend_from_slice(&rc::frame(rc::FRAME_SETTINGS, &rc::settings_payload(&rc::default_peer_settings())));
    let acts = vec![
        Act::OpenUni { slot: SLOT_CONTROL },
        Act::Write { slot: SLOT_CONTROL, hex: hex(&control) },
        Act::AcceptBi { slot: SLOT_CONNECT },
        Act::Write { slot: SLOT_CONNECT, hex: hex(&rc::headers_frame(&fields, p.style)) },
        Act::WaitSession,
        Act::Gap,
    ];
    let mut s = p.base.clone();
    s.acts = acts;
    s.settle_ms = 200;
    let (mut ex, obs) = run_script(&s, trace, "C18");
    let Some(obs) = obs else { return ex };
    ex.nontrivial = true;
    let class = classify_status(&p.status);
    let desc = format!("response :status {:?}", p.status);
    match class {
        StatusClass::Accept => {
            if !matches!(obs.sut, SutSession::Established { .. }) {
                ex.violation("C18/valid-response-refused", format!("{desc}: connect() gave {:?}", obs.sut));
            }
            ex.probe("status_accept", 1);
        }
        StatusClass::Reject => {
            if !matches!(obs.sut, SutSession::Rejected) {
                ex.violation(
                    if matches!(obs.sut, SutSession::Established { .. }) { "C18/non-2xx-accepted" } else { "C18/non-2xx-not-reported-as-rejected" },
                    format!("{desc}: connect() gave {:?}", obs.sut),
                );
            }
            ex.probe("status_reject", 1);
        }
        StatusClass::Malformed => {
            match &obs.sut {
                SutSession::Established { .. } => ex.violation("C18/malformed-status-accepted", format!("{desc}: connect() returned a session")),
                SutSession::Rejected => ex.violation("C18/malformed-status-as-rejection", format!("{desc}: reported as an ordinary 'session rejected' instead of a malformed response")),
                SutSession::Pending => ex.violation("C18/connect-hung", format!("{desc}: connect() still pending")),
                SutSession::Failed(_) => {
                    if !matches!(&obs.raw_close, RawClose::Application { code, .. } if *code == rc::H3_MESSAGE_ERROR) {
                        ex.violation("C18/malformed-status-code", format!("{desc}: connection not closed with H3_MESSAGE_ERROR (raw peer saw {:?}, connect() {:?})", obs.raw_close, obs.sut));
                    }
                }
            }
            ex.probe("status_malformed", 1);
        }
        StatusClass::Unconstrained => {
            if matches!(obs.sut, SutSession::Pending) {
                ex.violation("C18/connect-hung", format!("{desc}: connect() still pending"));
            }
            ex.probe("status_unconstrained", 1);
        }
    }
    ex
}

pub struct C18Status;

impl TypedScenario for C18Status {
    type Plan = StatusPlan;
    fn name(&self) -> &'static str {
        "raw-response-status"
    }
    fn budget(&self, tier: Tier) -> usize {
        status_sweep(tier) + match tier {
            Tier::Quick => 2000,
            Tier::Thorough => 250_000,
        }
    }
    fn generate(&self, seed: u64, index: usize, tier: Tier) -> StatusPlan {
        gen_status(seed, index, tier)
    }
    fn execute(&self, plan: &StatusPlan, trace: bool) -> Exec {
        exec_status(plan, trace)
    }
    fn exhaustive_prefix(&self, tier: Tier) -> Option<usize> {
        Some(status_sweep(tier))
    }
}

// ---- (c) reserved header names through connect() ----------------------------------------------

#[derive(Serialize, Deserialize, Clone, Debug)]
pub struct HdrPlan {
    pub seed: u64,
    pub rt: RtKnobs,
    pub name: String,
    pub value: String,
    /// query part of the URL ("" = none)
    #[serde(default)]
    pub query: String,
    /// fragment of the URL ("" = none; "#" alone = an empty fragment): never part of :path
    #[serde(default)]
    pub fragment: String,
}

const RESERVED: [&str; 5] = [":method", ":scheme", ":protocol", ":authority", ":path"];
const CASEVAR: [&str; 8] = [":Path", ":PATH", ":Method", ":AUTHORITY", ":Authority", ":Scheme", ":pRotocol", ":patH"];
const NEAR: [&str; 14] = ["method", "scheme", "protocol", "authority", "path", ":methodx", "x:method", ":status", ":pathx", "path:", "x-method", ":me", "origin", "user-agent"];

pub fn exec_hdr(p: &HdrPlan, trace: bool) -> Exec {
    let mut ex = Exec::new();
    let p = p.clone();
    let p2 = p.clone();
    let netslot: Arc<Mutex<Option<SimNet>>> = Arc::new(Mutex::new(None));
    let ns2 = netslot.clone();
    let out = simrt::run(&p.rt, p.seed, Duration::from_secs(120), move || async move {
        let p = p2;
        let net = SimNet::new(NetCfg::clean(p.seed), trace);
        *ns2.lock().unwrap() = Some(net.clone());
        let k = harness::EpKnobs::default();
        let pair = harness::pair(&net, p.seed, &k, &k);
        let server = async {
            let req = pair.server_ep.accept().await.await.map_err(|e| format!("{e:?}"))?;
            let seen = req.headers().clone();
            let c = req.accept().await.map_err(|e| format!("{e:?}"))?;
            // keep the session alive until the client is done
            tokio::spawn(async move {
                c.closed().await;
            });
            Ok::<_, String>(seen)
        };
        let mut url = if p.query.is_empty() { harness::default_url() } else { format!("{}?{}", harness::default_url(), p.query) };
        if !p.fragment.is_empty() {
            url.push('#');
            url.push_str(p.fragment.trim_start_matches('#'));
        }
        let opts = ConnectOptions::builder(url).add_header(p.name.clone(), p.value.clone()).build();
        let client = async { pair.client_ep.connect(opts).await };
        tokio::select! {
            (s, c) = async { tokio::join!(server, client) } => (Some(s), Some(c.map(|_| ()).map_err(|e| match e { ConnectingError::ReservedHeader(h) => format!("ReservedHeader:{h}"), other => format!("{other:?}") }))),
            _ = tokio::time::sleep(Duration::from_secs(60)) => (None, None),
        }
    });
    sut::finish_exec(&mut ex, &netslot, trace);
    if !out.panics.is_empty() {
        ex.violation("C18/panic", out.panics.join(" | "));
        return ex;
    }
    ex.nontrivial = true;
    let reserved = RESERVED.contains(&p.name.as_str());
    let case_variant = !reserved && RESERVED.contains(&p.name.to_ascii_lowercase().as_str());
    let url_path = if p.query.is_empty() { "/sim".to_string() } else { format!("/sim?{}", p.query) };
    let pseudo_intact = |ex: &mut Exec, seen: &std::collections::HashMap<String, String>| {
        let want = [(":method", "CONNECT"), (":scheme", "https"), (":protocol", "webtransport"), (":authority", harness::SERVER_ADDR), (":path", url_path.as_str())];
        for (n, want) in want {
            if seen.get(n).map(|s| s.as_str()) != Some(want) {
                ex.violation("C18/pseudo-header-overridden", format!("with additional header {:?}={:?} the server saw {n}={:?}, the URL says {want:?}", p.name, p.value, seen.get(n)));
            }
        }
    };
    match out.value {
        Some((_, Some(Err(e)))) if reserved => {
            if e != format!("ReservedHeader:{}", p.name) {
                ex.violation("C18/reserved-header-error", format!("add_header({:?}) -> {e} (expected ReservedHeader)", p.name));
            }
            ex.probe("reserved_refused", 1);
        }
        // a reserved name in another letter case: refusing it, failing the request or passing it
        // on as an ordinary field are all within the property - overriding the pseudo-header
        // the server application sees is not
        Some((s, c)) if case_variant => {
            if let Some(Ok(seen)) = &s {
                pseudo_intact(&mut ex, seen);
                ex.probe("case_variant_reached_server", 1);
            } else {
                ex.probe("case_variant_refused", 1);
            }
            let _ = c;
        }
        None if case_variant => ex.probe("case_variant_refused", 1),
        Some((Some(Ok(seen)), Some(Ok(())))) if !reserved => {
            if seen.get(&p.name) != Some(&p.value) {
                ex.violation("C18/header-not-delivered", format!("additional header {:?}={:?} not seen by the server: {:?}", p.name, p.value, seen.get(&p.name)));
            }
            pseudo_intact(&mut ex, &seen);
            ex.probe("non_reserved_passed", 1);
        }
        Some((s, c)) if reserved => ex.violation("C18/reserved-header-accepted", format!("add_header({:?}) was not refused: server {:?}, client {:?}", p.name, s.map(|x| x.map(|_| ())), c)),
        other => {
            // hold-over of the pending server future is expected when the client refuses early
            if reserved {
                ex.violation("C18/reserved-header-accepted", format!("{other:?}"));
            } else {
                ex.violation("C18/non-reserved-header-refused", format!("add_header({:?}): {:?}", p.name, other.map(|(s, c)| (s.map(|x| x.map(|_| ())), c))));
            }
        }
    }
    ex
}

pub struct C18Hdr;

impl TypedScenario for C18Hdr {
    type Plan = HdrPlan;
    fn name(&self) -> &'static str {
        "e2e-reserved-headers"
    }
    fn budget(&self, tier: Tier) -> usize {
        match tier {
            Tier::Quick => RESERVED.len() + NEAR.len() + CASEVAR.len() + 800,
            Tier::Thorough => RESERVED.len() + NEAR.len() + CASEVAR.len() + 50_000,
        }
    }
    fn generate(&self, seed: u64, index: usize, _tier: Tier) -> HdrPlan {
        let mut rng = Rng::new(seed, "c18-hdr");
        let name = if index < RESERVED.len() {
            RESERVED[index].to_string()
        } else if index < RESERVED.len() + NEAR.len() {
            NEAR[index - RESERVED.len()].to_string()
        } else if index < RESERVED.len() + NEAR.len() + CASEVAR.len() {
            CASEVAR[index - RESERVED.len() - NEAR.len()].to_string()
        } else {
            match rng.below(10) {
                0..=2 => rng.pick(&RESERVED).to_string(),
                // a reserved name with a random non-empty subset of its letters in upper case
                3..=5 => {
                    let base = rng.pick(&RESERVED).to_string();
                    let mut out: String = base.chars().map(|c| if rng.chance_pm(400) { c.to_ascii_uppercase() } else { c }).collect();
                    if out == base {
                        out = base.to_ascii_uppercase();
                    }
                    out
                }
                _ => format!("{}{}", rng.pick(&NEAR), rng.range(0, 99)),
            }
        };
        let value = match rng.below(4) {
            0 => "/admin".to_string(),
            1 => "internal.example".to_string(),
            _ => format!("value-{}", rng.range(0, 9999)),
        };
        let query = if rng.chance_pm(400) { format!("id={}&x=a%20b", rng.range(0, 999)) } else { String::new() };
        let fragment = match rng.below(5) {
            0 => "#".to_string(),
            1 => format!("frag-{}", rng.range(0, 99)),
            _ => String::new(),
        };
        HdrPlan { seed, rt: RtKnobs::from_rng(&mut rng), name, value, query, fragment }
    }
    fn execute(&self, plan: &HdrPlan, trace: bool) -> Exec {
        exec_hdr(plan, trace)
    }
    fn exhaustive_prefix(&self, _tier: Tier) -> Option<usize> {
        Some(RESERVED.len() + NEAR.len() + CASEVAR.len())
    }
}

pub fn def() -> PropertyDef {
    PropertyDef {
        id: "C18",
        scenarios: vec![Box::new(Typed(C18Req)), Box::new(Typed(C18Status)), Box::new(Typed(C18Hdr))],
        rule: "raw-request-admission: raw client sends a request whose five pseudo-headers are each right / missing / wrong (exhaustive grid of 11x7x8x3x3 = 5544 combinations, the wrong values including other letter cases of the method, prefixes, suffixed and empty values, then sampled single-defect requests with arbitrary extra fields and all four QPACK encoding styles); oracle: offered to the application iff CONNECT + https + webtransport + authority + path (authority, path and extras delivered intact); otherwise that stream is refused with STOP_SENDING H3_REQUEST_REJECTED or H3_MESSAGE_ERROR, the application never sees it, and a following valid request on the same connection establishes a session that ends cleanly. raw-response-status: raw server answers the real client's CONNECT with a :status string — quick: every integer 0..1099 and 65436..65535, thorough: every integer 0..65535; plus signs, spaces, empty, non-digits, non-ASCII digits, huge numbers, and no :status at all; oracle: session iff a three-digit integer in 200..=299; 'session rejected' iff three digits in 100..=599 otherwise; everything else is malformed: connect() fails (not as a rejection) and the connection is closed with H3_MESSAGE_ERROR; in-range integers written with leading zeros are unconstrained. e2e-reserved-headers: ConnectOptions::add_header with each reserved pseudo-header, near-reserved names and reserved names in other letter cases (:Path, :AUTHORITY, random case subsets), on URLs with and without a query and a fragment; oracle: ReservedHeader error exactly for the five reserved names; other names reach the server intact; whatever reaches the server application carries :method CONNECT, :scheme https, :protocol webtransport and exactly the URL's authority and path-plus-query (a case variant may be refused, fail or pass as an ordinary field, but never changes those five). Every run is non-trivial; distinct = distinct plan hashes. Not covered here (pure functions): the numeric TryFrom<u8|u16|u32|u64> constructors.",
        assumptions: vec![
            "raw peer + reference codec are harness code; current-thread runtime; fault-free network",
            "the numeric StatusCode constructors are pure functions and are not simulation targets",
        ],
        real_components: vec!["wtransport (endpoint under test)", "wtransport-proto", "quinn", "quinn-proto", "rustls", "ring", "tokio scheduler + timer wheel (paused clock)"],
        stub_components: vec!["UDP sockets (SimNet)", "OS clock", "the peer: scripted raw quinn endpoint + independent reference codec (first two scenarios)"],
    }
}
