//! C03 — datagram payloads are never altered and the size contract is exact.

use crate::core::*;
use crate::harness::{self, EpKnobs};
use crate::props::c01::pattern;
use crate::rawpeer as rp;
use crate::refcodec as rc;
use crate::rng::Rng;
use crate::simnet::{NetCfg, SimNet};
use crate::simrt::{self, RtKnobs};
use crate::sut;
use serde::{Deserialize, Serialize};
use std::collections::HashMap;
use std::sync::{Arc, Mutex};
use std::time::Duration;
use wtransport::error::SendDatagramError;
use wtransport::Connection;

#[derive(Serialize, Deserialize, Clone, Debug)]
pub struct Burst {
    pub from_client: bool,
    pub start_us: u64,
    /// payload lengths; `usize::MAX - k` means "max_datagram_size() - k"
    pub lens: Vec<i64>,
    pub gap_us: u64,
}

#[derive(Serialize, Deserialize, Clone, Debug)]
pub struct Plan {
    pub seed: u64,
    pub rt: RtKnobs,
    pub net: NetCfg,
    pub ck: EpKnobs,
    pub sk: EpKnobs,
    pub bursts: Vec<Burst>,
    pub receivers_per_side: usize,
}

const PEER_BUFS: [Option<usize>; 14] = [None, Some(1), Some(2), Some(3), Some(5), Some(8), Some(9), Some(10), Some(11), Some(20), Some(64), Some(1200), Some(1500), Some(65535)];

pub fn gen_plan(seed: u64, index: usize, faulty: bool) -> Plan {
    let mut rng = Rng::new(seed, "c03");
    let rt = RtKnobs::from_rng(&mut rng);
    let mut net = NetCfg::clean(rng.next_u64());
    net.lat_min_us = *rng.pick(&[200u64, 1_000, 10_000]);
    net.lat_jitter_us = *rng.pick(&[0u64, 0, 2_000]);
    if faulty {
        net.drop_pm = *rng.pick(&[10u32, 50, 100]);
        net.dup_pm = *rng.pick(&[0u32, 20, 100]);
        net.reorder_pm = *rng.pick(&[0u32, 50, 200]);
        net.reorder_extra_us = rng.range(1_000, 20_000);
        net.fault_until_us = Some(20_000_000);
    }
    let mut ck = EpKnobs::default();
    let mut sk = EpKnobs::default();
    // the first runs sweep the peer-limit grid on both sides, the rest sample
    if index < PEER_BUFS.len() * 2 {
        if index % 2 == 0 {
            ck.dgram_recv_buf = PEER_BUFS[index / 2];
        } else {
            sk.dgram_recv_buf = PEER_BUFS[index / 2];
        }
    } else {
        if rng.chance_pm(350) {
            ck.dgram_recv_buf = *rng.pick(&PEER_BUFS);
        }
        if rng.chance_pm(350) {
            sk.dgram_recv_buf = *rng.pick(&PEER_BUFS);
        }
        if rng.chance_pm(100) {
            ck.dgram_recv_buf = Some(rng.usize(1, 2000));
        }
    }
    ck.mtu_discovery = rng.chance_pm(300);
    sk.mtu_discovery = rng.chance_pm(300);
    let nb = rng.usize(1, 4);
    let bursts = (0..nb)
        .map(|_| {
            let n = rng.usize(1, 12);
            Burst {
                from_client: rng.coin(),
                start_us: rng.range(0, 30_000),
                lens: (0..n)
                    .map(|_| match rng.below(8) {
                        0 => 0,
                        1 => 1,
                        2 => rng.range(2, 8) as i64,
                        3 => rng.range(8, 200) as i64,
                        4 => rng.range(200, 1100) as i64,
                        5 => -(rng.range(0, 3) as i64) - 1, // max - 0..3
                        6 => -1,
                        _ => rng.range(0, 1100) as i64,
                    })
                    .collect(),
                gap_us: *rng.pick(&[0u64, 100, 2_000]),
            }
        })
        .collect();
    Plan { seed, rt, net, ck, sk, bursts, receivers_per_side: rng.usize(1, 3) }
}

#[derive(Default)]
struct Side {
    sent: HashMap<Vec<u8>, u64>,
    received: Vec<Vec<u8>>,
    problems: Vec<(String, String)>,
    probes_ok: u64,
}

fn payload_of(key: u64, counter: u64, len: usize) -> Vec<u8> {
    let mut p = Vec::with_capacity(len);
    p.extend_from_slice(&counter.to_be_bytes()[4..]);
    p.extend_from_slice(&pattern(key ^ counter, len));
    p.truncate(len);
    if len < 4 {
        // too short for a counter: all-equal filler so the multiset comparison is exact
        p = vec![0x5a; len];
    }
    p
}

/// The size contract, checked with no await between query and sends.
fn probe_size_contract(conn: &Connection, peer_buf: Option<usize>, who: &str, side: &mut Side, sent_log: &mut HashMap<Vec<u8>, u64>) {
    let m = conn.max_datagram_size();
    match (peer_buf, m) {
        (None, Some(m)) => side.problems.push(("C03/max-size-nonsense".into(), format!("{who}: peer disabled datagrams but max_datagram_size() = Some({m})"))),
        (None, None) => {
            match conn.send_datagram(b"x") {
                Err(SendDatagramError::UnsupportedByPeer) => side.probes_ok += 1,
                other => side.problems.push(("C03/send-when-unsupported".into(), format!("{who}: peer disabled datagrams; send_datagram returned {other:?}"))),
            }
        }
        (Some(_), None) => {
            // nothing fits (peer limit smaller than the framing): every payload must be refused
            match conn.send_datagram(b"") {
                Err(SendDatagramError::TooLarge) | Err(SendDatagramError::UnsupportedByPeer) => side.probes_ok += 1,
                Ok(()) => side.problems.push(("C03/size-contract".into(), format!("{who}: max_datagram_size() = None but an empty payload was accepted"))),
                Err(e) => side.problems.push(("C03/size-contract".into(), format!("{who}: unexpected {e:?}"))),
            }
        }
        (Some(l), Some(m)) => {
            if m > 65535 || m > l {
                side.problems.push(("C03/max-size-nonsense".into(), format!("{who}: max_datagram_size() = {m} with peer limit {l}")));
                return;
            }
            for len in [0usize, 1, m.saturating_sub(1), m] {
                if len > m {
                    continue;
                }
                let p = vec![0xC3u8; len];
                match conn.send_datagram(&p) {
                    Ok(()) => {
                        *sent_log.entry(p).or_insert(0) += 1;
                        side.probes_ok += 1;
                    }
                    Err(SendDatagramError::TooLarge) => side.problems.push((
                        "C03/size-contract".into(),
                        format!("{who}: payload of {len} bytes refused as too large although max_datagram_size() = {m} (peer limit {l})"),
                    )),
                    Err(e) => side.problems.push(("C03/size-contract".into(), format!("{who}: unexpected {e:?} for len {len}"))),
                }
            }
            for len in [m + 1, m + 2, m + 10] {
                let p = vec![0xC4u8; len];
                match conn.send_datagram(&p) {
                    Err(SendDatagramError::TooLarge) => side.probes_ok += 1,
                    Ok(()) => {
                        *sent_log.entry(p).or_insert(0) += 1;
                        side.problems.push((
                            "C03/size-contract".into(),
                            format!("{who}: payload of {len} bytes accepted although max_datagram_size() = {m} (peer limit {l})"),
                        ));
                    }
                    Err(e) => side.problems.push(("C03/size-contract".into(), format!("{who}: unexpected {e:?} for len {len}"))),
                }
            }
        }
    }
}

pub fn execute(plan: &Plan, trace: bool) -> Exec {
    let mut ex = Exec::new();
    let plan = Arc::new(plan.clone());
    let p2 = plan.clone();
    let faulty = plan.net.has_faults();
    let netslot: Arc<Mutex<Option<SimNet>>> = Arc::new(Mutex::new(None));
    let ns2 = netslot.clone();
    let out = simrt::run(&plan.rt, plan.seed, Duration::from_secs(120), move || async move {
        let plan = p2;
        let net = SimNet::new(plan.net.clone(), trace);
        *ns2.lock().unwrap() = Some(net.clone());
        let pair = harness::pair(&net, plan.seed, &plan.ck, &plan.sk);
        let (cconn, sconn) = match harness::establish(&pair, &harness::default_url()).await {
            Ok(x) => x,
            Err(e) => return Err(format!("establish: {e}")),
        };
        net.note("established");
        // [0] = client side (sends to server), [1] = server side
        let sides: [Arc<Mutex<Side>>; 2] = [Arc::new(Mutex::new(Side::default())), Arc::new(Mutex::new(Side::default()))];
        // receivers: several concurrent receive_datagram callers per side
        for (i, conn) in [cconn.clone(), sconn.clone()].into_iter().enumerate() {
            for _ in 0..plan.receivers_per_side {
                let (conn, side) = (conn.clone(), sides[i].clone());
                tokio::spawn(async move {
                    while let Ok(d) = conn.receive_datagram().await {
                        let a = d.payload().to_vec();
                        let b = d.to_vec();
                        let mut s = side.lock().unwrap();
                        if a != b {
                            s.problems.push(("C03/payload-accessors-disagree".into(), format!("payload() {} bytes vs deref {} bytes", a.len(), b.len())));
                        }
                        s.received.push(a);
                    }
                });
            }
        }
        // size-contract probes (what each side may send is bounded by what its *peer* advertised)
        // A side that disabled datagrams *locally* (its own receive buffer is None) does not
        // send at all: the transport refuses that with a "disabled locally" error, which is
        // about the local configuration, not about the peer's limits C03 quantifies over.
        if plan.ck.dgram_recv_buf.is_some() {
            let mut s = sides[0].lock().unwrap();
            let mut log = std::mem::take(&mut s.sent);
            probe_size_contract(&cconn, plan.sk.dgram_recv_buf, "client", &mut s, &mut log);
            s.sent = log;
        } else {
            let _ = cconn.max_datagram_size();
        }
        if plan.sk.dgram_recv_buf.is_some() {
            let mut s = sides[1].lock().unwrap();
            let mut log = std::mem::take(&mut s.sent);
            probe_size_contract(&sconn, plan.ck.dgram_recv_buf, "server", &mut s, &mut log);
            s.sent = log;
        } else {
            let _ = sconn.max_datagram_size();
        }
        // bursts
        let mut handles = Vec::new();
        for (bi, b) in plan.bursts.iter().cloned().enumerate() {
            let own_buf = if b.from_client { plan.ck.dgram_recv_buf } else { plan.sk.dgram_recv_buf };
            if own_buf.is_none() {
                continue;
            }
            let conn = if b.from_client { cconn.clone() } else { sconn.clone() };
            let side = sides[if b.from_client { 0 } else { 1 }].clone();
            let key = plan.seed ^ (bi as u64) << 32;
            handles.push(tokio::spawn(async move {
                tokio::time::sleep(Duration::from_micros(b.start_us)).await;
                for (i, l) in b.lens.iter().enumerate() {
                    let m = conn.max_datagram_size();
                    let len = if *l < 0 {
                        match m {
                            Some(m) => m.saturating_sub((-*l - 1) as usize),
                            None => 0,
                        }
                    } else {
                        (*l as usize).min(m.unwrap_or(0))
                    };
                    let p = payload_of(key, (bi * 1000 + i) as u64, len);
                    let r = conn.send_datagram(&p);
                    {
                        let mut s = side.lock().unwrap();
                        match (r, m) {
                            (Ok(()), _) => *s.sent.entry(p).or_insert(0) += 1,
                            (Err(SendDatagramError::TooLarge), Some(m)) if len <= m => {
                                s.problems.push(("C03/size-contract".into(), format!("payload of {len} <= max {m} refused as too large")));
                            }
                            _ => {}
                        }
                    }
                    if b.gap_us > 0 {
                        tokio::time::sleep(Duration::from_micros(b.gap_us)).await;
                    }
                }
            }));
        }
        for h in handles {
            let _ = h.await;
        }
        net.quiesce(Duration::from_millis(200), Duration::from_secs(30)).await;
        tokio::time::sleep(Duration::from_millis(500)).await;
        // the contract again, on the same handles, now that path-MTU discovery (when enabled) has
        // moved the transport's limit: the advertised maximum is the current one, not the first
        // (a peer whose datagram buffer is a few bytes closes the connection when the first probe's
        // largest datagram reaches it - quinn treats it as oversized; nothing to probe then)
        let alive = cconn.quic_connection().close_reason().is_none() && sconn.quic_connection().close_reason().is_none();
        if alive && plan.ck.dgram_recv_buf.is_some() {
            let mut s = sides[0].lock().unwrap();
            let mut log = std::mem::take(&mut s.sent);
            probe_size_contract(&cconn, plan.sk.dgram_recv_buf, "client (second probe)", &mut s, &mut log);
            s.sent = log;
        }
        if alive && plan.sk.dgram_recv_buf.is_some() {
            let mut s = sides[1].lock().unwrap();
            let mut log = std::mem::take(&mut s.sent);
            probe_size_contract(&sconn, plan.ck.dgram_recv_buf, "server (second probe)", &mut s, &mut log);
            s.sent = log;
        }
        net.quiesce(Duration::from_millis(200), Duration::from_secs(30)).await;
        tokio::time::sleep(Duration::from_millis(300)).await;
        // oracle: what side X received must be a sub-multiset of what side Y sent
        let mut problems = Vec::new();
        let mut delivered = 0u64;
        let mut sent_total = 0u64;
        for (rx, tx, name) in [(1usize, 0usize, "server<-client"), (0, 1, "client<-server")] {
            let txs = sides[tx].lock().unwrap();
            let rxs = sides[rx].lock().unwrap();
            sent_total += txs.sent.values().sum::<u64>();
            let mut counts: HashMap<&Vec<u8>, u64> = HashMap::new();
            for d in &rxs.received {
                *counts.entry(d).or_insert(0) += 1;
                delivered += 1;
            }
            for (d, n) in counts {
                match txs.sent.get(d) {
                    None => problems.push((
                        "C03/altered-datagram".to_string(),
                        format!("{name}: received a {}-byte payload that was never sent (first bytes {:02x?})", d.len(), &d[..d.len().min(12)]),
                    )),
                    Some(s) if n > *s => problems.push((
                        "C03/duplicated-datagram".to_string(),
                        format!("{name}: a {}-byte payload sent {s} time(s) was delivered {n} times", d.len()),
                    )),
                    _ => {}
                }
            }
        }
        let mut probes_ok = 0;
        for s in &sides {
            let s = s.lock().unwrap();
            problems.extend(s.problems.iter().cloned());
            probes_ok += s.probes_ok;
        }
        drop(pair);
        Ok((problems, delivered, sent_total, probes_ok))
    });
    sut::finish_exec(&mut ex, &netslot, trace);
    if !out.panics.is_empty() {
        ex.violation("C03/panic", out.panics.join(" | "));
        return ex;
    }
    match out.value {
        None => {
            if faulty {
                ex.inconclusive("simulated-time limit under faults");
            } else {
                ex.violation("C03/run-did-not-finish", "exceeded 120 s simulated".into());
            }
        }
        Some(Err(e)) => {
            if faulty {
                ex.inconclusive("handshake failed under faults");
            } else {
                ex.violation("C03/establish", e);
            }
        }
        Some(Ok((problems, delivered, sent, probes_ok))) => {
            ex.probe("datagrams_delivered", delivered);
            ex.probe("datagrams_sent", sent);
            ex.probe("size_contract_probes_ok", probes_ok);
            ex.nontrivial = (delivered > 0 || probes_ok > 0) && (!faulty || ex.net.faults_fired() > 0);
            if let Some((c, d)) = problems.into_iter().next() {
                ex.violation(&c, d);
            }
        }
    }
    ex
}

pub struct C03E2E {
    pub faulty: bool,
}

impl TypedScenario for C03E2E {
    type Plan = Plan;
    fn name(&self) -> &'static str {
        if self.faulty {
            "e2e-faults"
        } else {
            "e2e-clean"
        }
    }
    fn budget(&self, tier: Tier) -> usize {
        match tier {
            Tier::Quick => 6000,
            Tier::Thorough => 1_000_000,
        }
    }
    fn generate(&self, seed: u64, index: usize, _tier: Tier) -> Plan {
        gen_plan(seed, index, self.faulty)
    }
    fn execute(&self, plan: &Plan, trace: bool) -> Exec {
        execute(plan, trace)
    }
    fn faulty(&self) -> bool {
        self.faulty
    }
    fn shrink(&self, plan: &Plan) -> Vec<Plan> {
        let v = serde_json::to_value(plan).unwrap();
        let mut c = shrink_array(&v, "/bursts", 0);
        c.extend(shrink_net(&v, "/net"));
        c.extend(shrink_num(&v, "/receivers_per_side", 1));
        for i in 0..plan.bursts.len() {
            c.extend(shrink_array(&v, &format!("/bursts/{i}/lens"), 1));
        }
        c.into_iter().filter_map(|v| serde_json::from_value(v).ok()).collect()
    }
}

// ---- RAW: larger session ids (2- and 4-byte quarter stream ids) ----------------------------

#[derive(Serialize, Deserialize, Clone, Debug)]
pub struct BigSidPlan {
    pub seed: u64,
    pub rt: RtKnobs,
    pub net: NetCfg,
    /// number of bidirectional streams the raw client burns before CONNECT
    pub burn: u64,
    pub lens: Vec<usize>,
}

pub fn execute_bigsid(plan: &BigSidPlan, trace: bool) -> Exec {
    let mut ex = Exec::new();
    let plan = Arc::new(plan.clone());
    let p2 = plan.clone();
    let netslot: Arc<Mutex<Option<SimNet>>> = Arc::new(Mutex::new(None));
    let ns2 = netslot.clone();
    let out = simrt::run(&plan.rt, plan.seed, Duration::from_secs(600), move || async move {
        let plan = p2;
        let net = SimNet::new(plan.net.clone(), trace);
        *ns2.lock().unwrap() = Some(net.clone());
        let mut r = Rng::new(plan.seed, "c03-bigsid");
        let mut k = EpKnobs::default();
        k.max_bi = 512;
        let s = sut::sut_server(&net, &k, &mut r);
        let (rep, _rs) = rp::raw_client_endpoint(&net, rp::RAW_CLIENT_ADDR.parse().unwrap(), sut::raw_transport(), r.seed32(), b"h3");
        let sep = s.ep;
        let accept = tokio::spawn(async move {
            let req = sep.accept().await.await.map_err(|e| format!("incoming: {e:?}"))?;
            let conn = req.accept().await.map_err(|e| format!("accept: {e:?}"))?;
            Ok::<_, String>((conn, sep))
        });
        let conn = rep.connect(s.addr, "localhost").map_err(|e| format!("{e:?}"))?.await.map_err(|e| format!("raw handshake: {e:?}"))?;
        let rec = rp::start_recorder(&conn, false);
        // burn stream ids: open + reset, so the CONNECT stream gets a large id
        for _ in 0..plan.burn {
            let (mut s, _r) = conn.open_bi().await.map_err(|e| format!("burn open_bi: {e:?}"))?;
            let _ = s.reset(0u32.into());
        }
        let rs = sut::raw_client_session_on(conn.clone(), "10.0.0.1:4433", "/c03").await?;
        let (sconn, _sep) = accept.await.map_err(|e| format!("{e:?}"))??;
        let sid = rs.session_id;
        if sconn.session_id().into_u64() != sid {
            return Ok(vec![("C03/session-id".to_string(), format!("server reports session {} but the CONNECT stream is {sid}", sconn.session_id().into_u64()))]);
        }
        let mut problems = Vec::new();
        let qid = rc::varint(sid / 4);
        // raw -> server
        let recv_task = {
            let sconn = sconn.clone();
            tokio::spawn(async move {
                let mut got = Vec::new();
                while let Ok(Ok(d)) = tokio::time::timeout(Duration::from_secs(2), sconn.receive_datagram()).await {
                    got.push(d.payload().to_vec());
                }
                got
            })
        };
        let mut sent = Vec::new();
        for (i, l) in plan.lens.iter().enumerate() {
            let body = payload_of(plan.seed, i as u64, (*l).max(4));
            // the quarter stream id in every varint length the value admits (non-shortest forms are
            // legal on the wire and must not disturb the payload)
            let mut d = Vec::new();
            let shortest = rc::varint_len(sid / 4);
            let want = [shortest, 2, 4, 8][i % 4].max(shortest);
            rc::put_varint_len(sid / 4, want, &mut d);
            d.extend_from_slice(&body);
            if conn.send_datagram(d.into()).is_ok() {
                sent.push(body);
            }
            tokio::time::sleep(Duration::from_millis(20)).await;
        }
        let got = recv_task.await.unwrap_or_default();
        for g in &got {
            if !sent.contains(g) {
                problems.push(("C03/altered-datagram".to_string(), format!("session {sid}: received {}-byte payload never sent: {:02x?}", g.len(), &g[..g.len().min(12)])));
            }
        }
        if got.len() != sent.len() {
            problems.push(("C03/lost-on-clean-network".to_string(), format!("session {sid}: {} of {} paced datagrams delivered on a loss-free network", got.len(), sent.len())));
        }
        // server -> raw: wire form must be shortest-varint quarter id + payload; size contract with a multi-byte header
        let m = sconn.max_datagram_size();
        let mut wire_expected = Vec::new();
        if let Some(m) = m {
            for len in [0usize, 1, 4, m.saturating_sub(1), m] {
                let p = payload_of(plan.seed ^ 99, len as u64, len);
                match sconn.send_datagram(&p) {
                    Ok(()) => {
                        let mut w = qid.clone();
                        w.extend_from_slice(&p);
                        wire_expected.push(w);
                    }
                    Err(e) => problems.push(("C03/size-contract".to_string(), format!("session {sid}: len {len} <= max {m} refused: {e:?}"))),
                }
                tokio::time::sleep(Duration::from_millis(20)).await;
            }
            if !matches!(sconn.send_datagram(vec![0u8; m + 1]), Err(SendDatagramError::TooLarge)) {
                problems.push(("C03/size-contract".to_string(), format!("session {sid}: len max+1 = {} accepted", m + 1)));
            }
        } else {
            problems.push(("C03/max-size-nonsense".to_string(), "max_datagram_size() = None with default peer limits".into()));
        }
        tokio::time::sleep(Duration::from_millis(500)).await;
        let wire = rec.0.lock().unwrap().datagrams.clone();
        for w in &wire_expected {
            if !wire.contains(w) {
                problems.push((
                    "C03/wire-format".to_string(),
                    format!("session {sid}: datagram with quarter id {:02x?} + {}-byte payload not seen on the wire; saw {:?}", qid, w.len() - qid.len(), wire.iter().map(|d| d[..d.len().min(6)].to_vec()).collect::<Vec<_>>()),
                ));
                break;
            }
        }
        Ok(problems)
    });
    sut::finish_exec(&mut ex, &netslot, trace);
    if !out.panics.is_empty() {
        ex.violation("C03/panic", out.panics.join(" | "));
        return ex;
    }
    match out.value {
        None => ex.violation("C03/run-did-not-finish", "exceeded 600 s simulated".into()),
        Some(Err(e)) => ex.violation("C03/setup", e),
        Some(Ok(problems)) => {
            ex.nontrivial = true;
            ex.probe("quarter_id_bytes", rc::varint_len(plan.burn) as u64);
            if let Some((c, d)) = problems.into_iter().next() {
                ex.violation(&c, d);
            }
        }
    }
    ex
}

pub struct C03BigSid;

impl TypedScenario for C03BigSid {
    type Plan = BigSidPlan;
    fn name(&self) -> &'static str {
        "raw-large-session-id"
    }
    fn budget(&self, tier: Tier) -> usize {
        match tier {
            Tier::Quick => 300,
            Tier::Thorough => 400,
        }
    }
    fn generate(&self, seed: u64, index: usize, tier: Tier) -> BigSidPlan {
        let mut rng = Rng::new(seed, "c03-bigsid-plan");
        // session id = 4 * burn; quarter id = burn: 1 byte < 64 <= 2 bytes < 16384 <= 4 bytes
        let burn = match (index % 8, tier) {
            (0, _) => 0,
            (1, _) => 63,
            (2, _) => 64,
            (3, _) => 65,
            (4, _) => rng.range(64, 400),
            (5, Tier::Thorough) => 16383,
            (6, Tier::Thorough) => 16384,
            (7, Tier::Thorough) => rng.range(16384, 17000),
            _ => rng.range(1, 300),
        };
        let mut net = NetCfg::clean(rng.next_u64());
        net.lat_min_us = 500;
        BigSidPlan { seed, rt: RtKnobs::from_rng(&mut rng), net, burn, lens: (0..rng.usize(4, 8)).map(|_| rng.usize(4, 1000)).collect() }
    }
    fn execute(&self, plan: &BigSidPlan, trace: bool) -> Exec {
        execute_bigsid(plan, trace)
    }
}

/// Datagrams of the live session interleaved with datagrams naming other sessions, against an
/// application that is waiting in receive_datagram or busy between its calls: what the
/// application gets are exactly own payloads (C17's scenario restricted to datagrams).
pub struct C03Foreign;

impl TypedScenario for C03Foreign {
    type Plan = crate::props::c17::Plan;
    fn name(&self) -> &'static str {
        "raw-foreign-datagrams"
    }
    fn budget(&self, tier: Tier) -> usize {
        match tier {
            Tier::Quick => 4000,
            Tier::Thorough => 500_000,
        }
    }
    fn generate(&self, seed: u64, index: usize, tier: Tier) -> Self::Plan {
        use crate::props::c17::Item;
        let mut p = crate::props::c17::gen_plan(seed ^ 0x6333, index, tier);
        for it in p.items.iter_mut() {
            *it = match it.clone() {
                Item::OwnUni { tag } | Item::OwnBi { tag } => Item::OwnDgram { tag },
                Item::ForeignUni { sid, tag } | Item::ForeignBi { sid, tag } => Item::ForeignDgram { sid, tag },
                other => other,
            };
        }
        p.base.app_pace_ms = [0u64, 20, 150][index % 3];
        p
    }
    fn execute(&self, plan: &Self::Plan, trace: bool) -> Exec {
        crate::props::c17::execute(plan, trace).relabel("C17/", "C03/")
    }
    fn shrink(&self, plan: &Self::Plan) -> Vec<Self::Plan> {
        let v = serde_json::to_value(plan).unwrap();
        shrink_array(&v, "/items", 1).into_iter().filter_map(|v| serde_json::from_value(v).ok()).collect()
    }
}

// ---- small outgoing datagram buffer ----------------------------------------------------------------

/// The sender's outgoing datagram buffer is smaller than, or a few times, one datagram. What may
/// be sent is bounded by the advertised maximum only - room in the local queue is a matter of
/// eviction, never of "too large". One datagram at a time, the network drained in between (so
/// quinn's eviction path - which has an accounting defect of its own in quinn-proto 0.11.17 - is
/// never entered).
#[derive(Serialize, Deserialize, Clone, Debug)]
pub struct SmallBufPlan {
    pub seed: u64,
    pub rt: RtKnobs,
    pub net: NetCfg,
    pub from_client: bool,
    pub send_buf: usize,
    /// payload lengths; negative = max_datagram_size() - (|l| - 1)
    pub lens: Vec<i64>,
}

pub fn exec_small_buf(p: &SmallBufPlan, trace: bool) -> Exec {
    let mut ex = Exec::new();
    let p = Arc::new(p.clone());
    let p2 = p.clone();
    let netslot: Arc<Mutex<Option<SimNet>>> = Arc::new(Mutex::new(None));
    let ns2 = netslot.clone();
    let out = simrt::run(&p.rt, p.seed, Duration::from_secs(120), move || async move {
        let p = p2;
        let net = SimNet::new(p.net.clone(), trace);
        *ns2.lock().unwrap() = Some(net.clone());
        let mut small = EpKnobs::default();
        small.dgram_send_buf = p.send_buf;
        let big = EpKnobs::default();
        let pair = if p.from_client { harness::pair(&net, p.seed, &small, &big) } else { harness::pair(&net, p.seed, &big, &small) };
        let (cconn, sconn) = harness::establish(&pair, &harness::default_url()).await.map_err(|e| format!("establish: {e}"))?;
        let (tx, rx) = if p.from_client { (cconn, sconn) } else { (sconn, cconn) };
        let got: Arc<Mutex<Vec<Vec<u8>>>> = Arc::new(Mutex::new(Vec::new()));
        {
            let (rx, got) = (rx.clone(), got.clone());
            tokio::spawn(async move {
                while let Ok(d) = rx.receive_datagram().await {
                    got.lock().unwrap().push(d.payload().to_vec());
                }
            });
        }
        let mut problems: Vec<(String, String)> = Vec::new();
        let mut sent = Vec::new();
        for (i, l) in p.lens.iter().enumerate() {
            let Some(m) = tx.max_datagram_size() else { return Err("no datagram support".into()) };
            let len = if *l < 0 { m.saturating_sub((-*l - 1) as usize) } else { (*l as usize).min(m) };
            let payload = payload_of(p.seed, i as u64, len);
            match tx.send_datagram(&payload) {
                Ok(()) => sent.push(payload),
                Err(e) => problems.push(("C03/size-contract".into(), format!("outgoing datagram buffer of {} bytes: payload of {len} bytes (max_datagram_size() = {m}) refused: {e:?}", p.send_buf))),
            }
            if tx.send_datagram(&vec![0u8; m + 1]).is_ok() {
                problems.push(("C03/size-contract".into(), format!("payload of {} bytes accepted although max_datagram_size() = {m}", m + 1)));
            }
            net.quiesce(Duration::from_millis(30), Duration::from_secs(5)).await;
        }
        tokio::time::sleep(Duration::from_millis(300)).await;
        let got = got.lock().unwrap().clone();
        for s in &sent {
            if !got.iter().any(|g| g == s) {
                problems.push(("C03/altered-datagram".into(), format!("a {}-byte datagram sent alone on a loss-free network did not arrive byte-identical ({} arrived)", s.len(), got.len())));
            }
        }
        drop(pair);
        Ok::<_, String>((problems, sent.len()))
    });
    sut::finish_exec(&mut ex, &netslot, trace);
    if !out.panics.is_empty() {
        ex.violation("C03/panic", out.panics.join(" | "));
        return ex;
    }
    match out.value {
        None => ex.violation("C03/run-did-not-finish", "exceeded 120 s simulated".into()),
        Some(Err(e)) => ex.violation("C03/setup", e),
        Some(Ok((problems, n))) => {
            ex.nontrivial = n > 0;
            ex.probe("datagrams_sent_one_at_a_time", n as u64);
            if let Some((c, d)) = problems.into_iter().next() {
                ex.violation(&c, d);
            }
        }
    }
    ex
}

pub struct C03SmallBuf;

impl TypedScenario for C03SmallBuf {
    type Plan = SmallBufPlan;
    fn name(&self) -> &'static str {
        "e2e-small-send-buffer"
    }
    fn budget(&self, tier: Tier) -> usize {
        match tier {
            Tier::Quick => 600,
            Tier::Thorough => 60_000,
        }
    }
    fn generate(&self, seed: u64, index: usize, _tier: Tier) -> SmallBufPlan {
        let mut rng = Rng::new(seed, "c03-smallbuf");
        let mut net = NetCfg::clean(rng.next_u64());
        net.lat_min_us = *rng.pick(&[200u64, 1_000, 10_000]);
        let n = rng.usize(1, 5);
        SmallBufPlan {
            seed,
            rt: RtKnobs::from_rng(&mut rng),
            net,
            from_client: index % 2 == 0,
            send_buf: *rng.pick(&[64usize, 512, 1024, 2048, 4096]),
            lens: (0..n).map(|_| *rng.pick(&[-1i64, -1, -2, -200, 0, 1, 900, 1100])).collect(),
        }
    }
    fn execute(&self, plan: &SmallBufPlan, trace: bool) -> Exec {
        exec_small_buf(plan, trace)
    }
}

pub fn def() -> PropertyDef {
    PropertyDef {
        id: "C03",
        scenarios: vec![
            Box::new(Typed(C03E2E { faulty: false })),
            Box::new(Typed(C03E2E { faulty: true })),
            Box::new(Typed(C03BigSid)),
            Box::new(Typed(C03Foreign)),
            Box::new(Typed(C03SmallBuf)),
        ],
        rule: "e2e-*: real client and server; the first 28 runs sweep the peer's datagram receive limit (None, 1,2,3,5,8,9,10,11,20,64,1200,1500,65535) on either side, the rest sample it; size-contract probe with no await between max_datagram_size() and the sends (lengths 0,1,m-1,m must not be TooLarge; m+1,m+2,m+10 must be; None exactly when the peer disabled datagrams or nothing fits; probed right after establishment and again at the end of the run on the same handles - with path-MTU discovery enabled on a third of the endpoints the limit has moved in between); 1-4 bursts of 1-12 unique payloads (lengths 0..max incl. max-0..3) in both directions with 1-3 concurrent receive_datagram callers per side; oracle: received multiset is a sub-multiset of the sent one (never altered, merged, truncated, duplicated, framing never visible; payload() == deref). raw-large-session-id: a raw client (which encodes the quarter stream id of its datagrams in every varint length, shortest and non-shortest) burns stream ids so the session id needs a 2-byte (quick) or 4-byte (thorough) quarter stream id; checks delivery, the exact wire form (shortest quarter-id varint + payload) and the size contract with a multi-byte header. 8-byte quarter ids need 2^28 streams and are out of reach in situ. e2e-small-send-buffer: the sender's outgoing datagram buffer is 64 B-4 kB; 1-5 datagrams of up to exactly max_datagram_size() bytes are sent one at a time (network drained in between): none may be refused as too large, max+1 always is, each arrives byte-identical. raw-foreign-datagrams: the raw peer interleaves datagrams of the live session (every varint length of the quarter id) with datagrams naming other sessions (incl. ids equal to the live one modulo 2^8 / 2^16 / 2^32) while the application is waiting in receive_datagram or pauses 20 / 150 ms before every call: every payload handed to the application is an own payload, unaltered, and on the unpaced third every own datagram arrives. Non-trivial = something was delivered or a size probe ran, and (fault batch) a fault fired; distinct = distinct plan hashes.",
        assumptions: vec![
            "under injected loss the datagram oracle is inclusion (datagrams may be lost or reordered), never equality; UDP-level duplication must be absorbed by QUIC",
            "quinn/rustls/tokio executed for real but trusted; current-thread runtime",
        ],
        real_components: vec!["wtransport", "wtransport-proto", "quinn", "quinn-proto", "rustls", "ring", "tokio scheduler + timer wheel (paused clock)"],
        stub_components: vec!["UDP sockets (SimNet)", "OS clock", "raw peer + reference codec in raw-large-session-id"],
    }
}
