//! C10 — certificate-hash pinning accepts exactly the pinned, short-lived P-256 leaf.
//!
//! The clock is the simulated input: (a) the real `ServerHashVerification` is called with a
//! simulated wall clock set to each side of both ends of generated validity windows (and to
//! seeded skews and jumps); (b) full handshakes in the simulator over the trust-policy x
//! server-identity matrix, including a custom TLS configuration that wires the same verifier
//! to an injected rustls `TimeProvider` so that the *handshake* runs on simulated time.

use crate::core::*;
use crate::harness::{self, EpKnobs};
use crate::rng::Rng;
use crate::simnet::{NetCfg, SimNet};
use crate::simrt::{self, RtKnobs};
use crate::sut;
use rustls::client::danger::ServerCertVerifier;
use rustls_pki_types::{CertificateDer, ServerName, UnixTime};
use serde::{Deserialize, Serialize};
use std::net::SocketAddr;
use std::sync::{Arc, Mutex};
use std::time::Duration;
use wtransport::tls::client::ServerHashVerification;
use wtransport::tls::{Certificate, CertificateChain, PrivateKey, Sha256Digest};
use wtransport::{ClientConfig, Identity};

#[derive(Serialize, Deserialize, Clone, Copy, Debug, PartialEq)]
pub enum KeyKind {
    P256,
    P384,
    Ed25519,
}

#[derive(Serialize, Deserialize, Clone, Copy, Debug, PartialEq)]
pub enum HashSet {
    Empty,
    Exactly,
    Other,
    ManyWith,
    ManyWithout,
}

const DAY: i64 = 86_400;
const WINDOWS: [i64; 7] = [3_600, 13 * DAY, 14 * DAY - 1, 14 * DAY, 14 * DAY + 1, 15 * DAY, 3650 * DAY];

pub fn make_cert(kind: KeyKind, not_before: i64, not_after: i64) -> (Vec<u8>, Vec<u8>) {
    use rcgen::*;
    let alg: &'static SignatureAlgorithm = match kind {
        KeyKind::P256 => &PKCS_ECDSA_P256_SHA256,
        KeyKind::P384 => &PKCS_ECDSA_P384_SHA384,
        KeyKind::Ed25519 => &PKCS_ED25519,
    };
    let kp = KeyPair::generate_for(alg).expect("key pair");
    let mut p = CertificateParams::new(vec!["localhost".to_string(), "10.0.0.1".to_string()]).expect("params");
    p.not_before = time::OffsetDateTime::from_unix_timestamp(not_before).expect("nb");
    p.not_after = time::OffsetDateTime::from_unix_timestamp(not_after).expect("na");
    let mut dn = DistinguishedName::new();
    dn.push(DnType::CommonName, "wtsim c10");
    p.distinguished_name = dn;
    let cert = p.self_signed(&kp).expect("self signed");
    (cert.der().to_vec(), kp.serialize_der())
}

fn digest_of(der: &[u8]) -> Sha256Digest {
    Certificate::from_der(der.to_vec()).expect("valid der").hash()
}

fn hashes_for(set: HashSet, h: &Sha256Digest, rng: &mut Rng) -> Vec<Sha256Digest> {
    // a digest that is not the leaf's: random, or derived from the leaf's own digest so that a
    // sloppy comparison (a prefix, a checksum of the bytes, a byte-order slip) would take it for
    // a match whatever certificate was generated - same bytes with one bit flipped in two
    // positions (XOR and sum of the bytes nearly unchanged), first / last byte changed,
    // reversed, rotated
    let hb: [u8; 32] = *h.as_ref();
    let other = |rng: &mut Rng| {
        let mut b = [0u8; 32];
        match rng.below(8) {
            0 => {
                b = hb;
                let (i, j) = (rng.usize(0, 31), rng.usize(0, 31));
                let bit = 1u8 << rng.below(8);
                b[i] ^= bit;
                b[if j == i { (j + 1) % 32 } else { j }] ^= bit;
            }
            1 => {
                b = hb;
                b[31] ^= 0x01;
            }
            2 => {
                b = hb;
                b[0] ^= 0x80;
            }
            3 => {
                b = hb;
                b.reverse();
                if b == hb {
                    b[5] ^= 1;
                }
            }
            4 => {
                b = hb;
                b.rotate_left(1);
                if b == hb {
                    b[5] ^= 1;
                }
            }
            _ => b.copy_from_slice(&rng.seed32()),
        }
        Sha256Digest::new(b)
    };
    match set {
        HashSet::Empty => vec![],
        HashSet::Exactly => vec![h.clone()],
        HashSet::Other => vec![other(rng)],
        HashSet::ManyWith => {
            let mut v: Vec<Sha256Digest> = (0..rng.usize(2, 6)).map(|_| other(rng)).collect();
            let pos = rng.usize(0, v.len());
            v.insert(pos, h.clone());
            v
        }
        HashSet::ManyWithout => (0..rng.usize(2, 6)).map(|_| other(rng)).collect(),
    }
}

fn must_accept(kind: KeyKind, set: HashSet, nb: i64, na: i64, now: i64) -> bool {
    matches!(set, HashSet::Exactly | HashSet::ManyWith) && nb <= now && now <= na && (na - nb) <= 14 * DAY && kind == KeyKind::P256
}

// ---- (a) the verifier under a simulated wall clock ------------------------------------------------

#[derive(Serialize, Deserialize, Clone, Debug)]
pub struct ClockPlan {
    pub seed: u64,
    pub key: KeyKind,
    pub set: HashSet,
    pub not_before: i64,
    pub window: i64,
    /// the simulated wall clock readings (seconds since the epoch) at which the certificate is
    /// presented, in order: a skewed / jumping clock is just a sequence of such readings
    pub nows: Vec<i64>,
    /// 0: the server presents the certificate alone. 1: an impostor presents its own acceptable
    /// leaf (P-256, same validity window) followed by the pinned certificate - the pinned one is
    /// not the leaf, so nothing may be accepted. 2: the pinned leaf followed by an unrelated
    /// certificate - judged like the leaf alone.
    #[serde(default)]
    pub chain: u8,
}

fn clock_sweep_len() -> usize {
    WINDOWS.len() * 3 * 5
}

pub fn gen_clock(seed: u64, index: usize) -> ClockPlan {
    let mut rng = Rng::new(seed, "c10-clock");
    let keys = [KeyKind::P256, KeyKind::P384, KeyKind::Ed25519];
    let sets = [HashSet::Empty, HashSet::Exactly, HashSet::Other, HashSet::ManyWith, HashSet::ManyWithout];
    let nb = 1_900_000_000 + rng.range(0, 100_000_000) as i64;
    let (window, key, set) = if index < clock_sweep_len() {
        (WINDOWS[index % WINDOWS.len()], keys[(index / WINDOWS.len()) % 3], sets[(index / WINDOWS.len() / 3) % 5])
    } else {
        let w = if rng.coin() { *rng.pick(&WINDOWS) } else { rng.range(1, 40 * DAY as u64) as i64 };
        (w, if rng.chance_pm(700) { KeyKind::P256 } else { *rng.pick(&keys) }, if rng.chance_pm(600) { HashSet::Exactly } else { *rng.pick(&sets) })
    };
    let na = nb + window;
    let mut nows = vec![nb - 1, nb, nb + 1, nb + window / 2, na - 1, na, na + 1];
    // seeded skews and jumps (forwards and backwards), a few far away
    for _ in 0..6 {
        let base = *rng.pick(&[nb, na, nb + window / 2]);
        let skew = match rng.below(4) {
            0 => rng.range(0, 120) as i64 - 60,
            1 => rng.range(0, 2 * DAY as u64) as i64 - DAY,
            2 => rng.range(0, 60 * DAY as u64) as i64 - 30 * DAY,
            _ => -(rng.range(0, 400 * DAY as u64) as i64),
        };
        nows.push((base + skew).max(0));
    }
    let chain = if index >= clock_sweep_len() && rng.chance_pm(300) { rng.range(1, 2) as u8 } else { 0 };
    ClockPlan { seed, key, set, not_before: nb, window, nows, chain }
}

pub fn exec_clock(p: &ClockPlan, _trace: bool) -> Exec {
    let mut ex = Exec::new();
    ex.nontrivial = true;
    let mut rng = Rng::new(p.seed, "c10-clock-exec");
    let na = p.not_before + p.window;
    let (der, _key) = make_cert(p.key, p.not_before, na);
    let h = digest_of(&der);
    let verifier = ServerHashVerification::new(hashes_for(p.set, &h, &mut rng));
    let pinned = CertificateDer::from(der);
    // a second, unpinned certificate with an acceptable key and the same window
    let (other_der, _k2) = make_cert(KeyKind::P256, p.not_before, na);
    let other = CertificateDer::from(other_der);
    let (cert, tail): (CertificateDer, Vec<CertificateDer>) = match p.chain {
        1 => (other.clone(), vec![pinned.clone()]),
        2 => (pinned.clone(), vec![other.clone()]),
        _ => (pinned.clone(), vec![]),
    };
    let name = ServerName::try_from("localhost").unwrap();
    let mut h64 = crate::rng::FNV_INIT;
    ex.probe("chains_with_pinned_certificate_not_leaf", (p.chain == 1) as u64);
    for now in &p.nows {
        let r = std::panic::catch_unwind(std::panic::AssertUnwindSafe(|| verifier.verify_server_cert(&cert, &tail, &name, &[], UnixTime::since_unix_epoch(Duration::from_secs(*now as u64)))));
        let want = p.chain != 1 && must_accept(p.key, p.set, p.not_before, na, *now);
        match r {
            Err(_) => {
                ex.violation("C10/panic", format!("verify_server_cert panicked at now = not_before {:+} s", now - p.not_before));
                return ex;
            }
            Ok(res) => {
                h64 = crate::rng::fnv1a(h64, &[res.is_ok() as u8]);
                if res.is_ok() != want {
                    ex.violation(
                        if want { "C10/pinned-cert-refused" } else { "C10/unacceptable-cert-accepted" },
                        format!(
                            "{}key {:?}, validity {} s ({}), hash set {:?}, clock at not_before {:+} s / not_after {:+} s: verifier said {}, expected {}",
                            match p.chain { 1 => "chain [unpinned P-256 leaf, pinned certificate]: pinned ", 2 => "chain [pinned leaf, unrelated certificate]: leaf ", _ => "" },
                            p.key,
                            p.window,
                            if p.window <= 14 * DAY { "<= 14 days" } else { "> 14 days" },
                            p.set,
                            now - p.not_before,
                            now - na,
                            if res.is_ok() { "accept".to_string() } else { format!("refuse ({:?})", res.err()) },
                            if want { "accept" } else { "refuse" }
                        ),
                    );
                    return ex;
                }
                ex.probe(if want { "accept_points" } else { "refuse_points" }, 1);
            }
        }
    }
    ex.trace_hash = h64;
    ex
}

pub struct C10Clock;

impl TypedScenario for C10Clock {
    type Plan = ClockPlan;
    fn name(&self) -> &'static str {
        "clock-verifier"
    }
    fn budget(&self, tier: Tier) -> usize {
        clock_sweep_len() + match tier {
            Tier::Quick => 10_000,
            Tier::Thorough => 2_000_000,
        }
    }
    fn generate(&self, seed: u64, index: usize, _tier: Tier) -> ClockPlan {
        gen_clock(seed, index)
    }
    fn execute(&self, plan: &ClockPlan, trace: bool) -> Exec {
        exec_clock(plan, trace)
    }
    fn exhaustive_prefix(&self, _tier: Tier) -> Option<usize> {
        Some(clock_sweep_len())
    }
    fn faulty(&self) -> bool {
        true
    }
}

// ---- (b) handshakes over the policy x identity matrix ----------------------------------------------

#[derive(Serialize, Deserialize, Clone, Copy, Debug, PartialEq)]
pub enum Policy {
    Hashes(HashSet),
    NativeCerts,
    NoValidation,
    /// custom TLS: the same verifier + an injected rustls TimeProvider reading `sim_now`
    PinnedOnSimClock(HashSet),
}

#[derive(Serialize, Deserialize, Clone, Copy, Debug, PartialEq)]
pub enum Ident {
    /// Identity::self_signed: P-256, 14 days from the real now
    LibrarySelfSigned,
    /// P-256/P-384/Ed25519 with a window placed relative to the clock the policy reads
    Custom { key: KeyKind, start_off: i64, window: i64 },
    /// an impostor: its own valid short-lived P-256 leaf, followed in the chain by the
    /// certificate the client has pinned
    ImpostorWithPinnedTail,
}

#[derive(Serialize, Deserialize, Clone, Debug)]
pub struct HsPlan {
    pub seed: u64,
    pub rt: RtKnobs,
    pub net: NetCfg,
    pub policy: Policy,
    pub ident: Ident,
}

#[derive(Debug)]
struct SimTime(i64);

impl rustls::time_provider::TimeProvider for SimTime {
    fn current_time(&self) -> Option<UnixTime> {
        Some(UnixTime::since_unix_epoch(Duration::from_secs(self.0 as u64)))
    }
}

static NATIVE_LOCK: Mutex<()> = Mutex::new(());

const POLICIES: [Policy; 12] = [
    Policy::Hashes(HashSet::Empty),
    Policy::Hashes(HashSet::Exactly),
    Policy::Hashes(HashSet::Other),
    Policy::Hashes(HashSet::ManyWith),
    Policy::Hashes(HashSet::ManyWithout),
    Policy::NativeCerts,
    Policy::NoValidation,
    Policy::PinnedOnSimClock(HashSet::Exactly),
    Policy::PinnedOnSimClock(HashSet::ManyWith),
    Policy::PinnedOnSimClock(HashSet::Other),
    Policy::PinnedOnSimClock(HashSet::Empty),
    Policy::PinnedOnSimClock(HashSet::ManyWithout),
];

/// identities whose windows stay at least two days away from the clock that judges them
const IDENTS: [Ident; 10] = [
    Ident::ImpostorWithPinnedTail,
    Ident::LibrarySelfSigned,
    Ident::Custom { key: KeyKind::P256, start_off: -2 * DAY, window: 12 * DAY }, // valid, short-lived
    Ident::Custom { key: KeyKind::P256, start_off: -10 * DAY, window: 8 * DAY }, // expired two days ago
    Ident::Custom { key: KeyKind::P256, start_off: 2 * DAY, window: 7 * DAY },   // not valid yet
    Ident::Custom { key: KeyKind::P256, start_off: -2 * DAY, window: 22 * DAY }, // valid but long-lived
    Ident::Custom { key: KeyKind::P256, start_off: -2 * DAY, window: 3650 * DAY },
    Ident::Custom { key: KeyKind::P384, start_off: -2 * DAY, window: 12 * DAY },
    Ident::Custom { key: KeyKind::Ed25519, start_off: -2 * DAY, window: 12 * DAY },
    Ident::Custom { key: KeyKind::P256, start_off: -7 * DAY, window: 14 * DAY }, // exactly 14 days
];

pub fn exec_hs(p: &HsPlan, trace: bool) -> Exec {
    let mut ex = Exec::new();
    let p = Arc::new(p.clone());
    let p2 = p.clone();
    let netslot: Arc<Mutex<Option<SimNet>>> = Arc::new(Mutex::new(None));
    let ns2 = netslot.clone();
    let real_now = std::time::SystemTime::now().duration_since(std::time::UNIX_EPOCH).unwrap().as_secs() as i64;
    // the clock that will judge the certificate: the real one, or the injected simulated one
    let mut rng0 = Rng::new(p.seed, "c10-hs-clock");
    let sim_now = 2_000_000_000 + rng0.range(0, 1_000_000_000) as i64;
    let judge_now = if matches!(p.policy, Policy::PinnedOnSimClock(_)) { sim_now } else { real_now };
    let out = simrt::run(&p.rt, p.seed, Duration::from_secs(120), move || async move {
        let p = p2;
        let net = SimNet::new(p.net.clone(), trace);
        *ns2.lock().unwrap() = Some(net.clone());
        let mut r = Rng::new(p.seed, "c10-hs");
        let (identity, key, nb, na) = match p.ident {
            Ident::LibrarySelfSigned => {
                let id = Identity::self_signed(["localhost", "10.0.0.1"]).map_err(|e| format!("{e:?}"))?;
                (id, KeyKind::P256, real_now, real_now + 14 * DAY)
            }
            Ident::Custom { key, start_off, window } => {
                let nb = judge_now + start_off;
                let (der, k) = make_cert(key, nb, nb + window);
                let id = Identity::new(CertificateChain::single(Certificate::from_der(der).map_err(|e| format!("{e:?}"))?), PrivateKey::from_der_pkcs8(k));
                (id, key, nb, nb + window)
            }
            Ident::ImpostorWithPinnedTail => {
                let nb = judge_now - 2 * DAY;
                let (leaf, k) = make_cert(KeyKind::P256, nb, nb + 7 * DAY);
                let (pinned, _) = make_cert(KeyKind::P256, nb, nb + 7 * DAY);
                let chain = CertificateChain::new(vec![Certificate::from_der(leaf).map_err(|e| format!("{e:?}"))?, Certificate::from_der(pinned).map_err(|e| format!("{e:?}"))?]);
                (Identity::new(chain, PrivateKey::from_der_pkcs8(k)), KeyKind::P256, nb, nb + 7 * DAY)
            }
        };
        let chain_certs = identity.certificate_chain().as_slice();
        let h = chain_certs[if p.ident == Ident::ImpostorWithPinnedTail { 1 } else { 0 }].hash();
        let saddr: SocketAddr = harness::SERVER_ADDR.parse().unwrap();
        let caddr: SocketAddr = harness::CLIENT_ADDR.parse().unwrap();
        let k = EpKnobs::default();
        let (sep, _ss) = harness::server_on(&net, harness::server_config(saddr, &k, identity, r.seed32()), saddr);
        let b = ClientConfig::builder().with_bind_address(caddr);
        let mut ccfg = match p.policy {
            Policy::Hashes(set) => b.with_server_certificate_hashes(hashes_for(set, &h, &mut r)).build(),
            Policy::NativeCerts => {
                // with_native_certs temporarily edits process environment variables: serialise
                let _g = NATIVE_LOCK.lock().unwrap();
                b.with_native_certs().build()
            }
            Policy::NoValidation => b.with_no_cert_validation().build(),
            Policy::PinnedOnSimClock(set) => {
                let provider = Arc::new(rustls::crypto::ring::default_provider());
                let mut tls = rustls::ClientConfig::builder_with_details(provider, Arc::new(SimTime(sim_now)))
                    .with_protocol_versions(&[&rustls::version::TLS13])
                    .map_err(|e| format!("{e:?}"))?
                    .dangerous()
                    .with_custom_certificate_verifier(Arc::new(ServerHashVerification::new(hashes_for(set, &h, &mut r))))
                    .with_no_client_auth();
                tls.alpn_protocols = vec![b"h3".to_vec()];
                b.with_custom_tls(tls).build()
            }
        };
        ccfg.quic_endpoint_config_mut().rng_seed(Some(r.seed32()));
        let (cep, _cs) = harness::client_on(&net, ccfg, caddr);
        let offered = Arc::new(Mutex::new(0u32));
        let o2 = offered.clone();
        tokio::spawn(async move {
            loop {
                let inc = sep.accept().await;
                let o3 = o2.clone();
                tokio::spawn(async move {
                    if let Ok(req) = inc.await {
                        *o3.lock().unwrap() += 1;
                        if let Ok(c) = req.accept().await {
                            c.closed().await;
                        }
                    }
                });
            }
        });
        let res = tokio::time::timeout(Duration::from_secs(60), cep.connect(format!("https://{}/c10", harness::SERVER_ADDR))).await;
        let connected = match &res {
            Ok(Ok(_)) => Ok(()),
            Ok(Err(e)) => Err(format!("{e:?}")),
            Err(_) => Err("connect pending 60 s".to_string()),
        };
        tokio::time::sleep(Duration::from_secs(1)).await;
        let off = *offered.lock().unwrap();
        Ok::<_, String>((connected, off, key, nb, na))
    });
    sut::finish_exec(&mut ex, &netslot, trace);
    if !out.panics.is_empty() {
        ex.violation("C10/panic", out.panics.join(" | "));
        return ex;
    }
    match out.value {
        None => ex.violation("C10/run-did-not-finish", "exceeded 120 s simulated".into()),
        Some(Err(e)) => ex.violation("C10/setup", e),
        Some(Ok((connected, offered, key, nb, na))) => {
            ex.nontrivial = true;
            let want = match p.policy {
                Policy::Hashes(_) | Policy::PinnedOnSimClock(_) if p.ident == Ident::ImpostorWithPinnedTail => false,
                Policy::Hashes(set) | Policy::PinnedOnSimClock(set) => must_accept(key, set, nb, na, judge_now),
                Policy::NativeCerts => false,
                Policy::NoValidation => true,
            };
            let what = format!("policy {:?}, server identity {:?} (window {} s, clock at not_before {:+} s)", p.policy, p.ident, na - nb, judge_now - nb);
            match (&connected, want) {
                (Ok(()), true) => ex.probe("handshakes_accepted", 1),
                (Err(_), false) => {
                    ex.probe("handshakes_refused", 1);
                    if offered > 0 {
                        ex.violation("C10/refused-server-got-session", format!("{what}: the client refused the server, yet the server application was offered {offered} session request(s)"));
                    }
                }
                (Ok(()), false) => ex.violation("C10/unacceptable-cert-accepted", format!("{what}: connect() succeeded")),
                (Err(e), true) => ex.violation("C10/pinned-cert-refused", format!("{what}: connect() failed: {e}")),
            }
        }
    }
    ex
}

pub struct C10Handshake;

impl TypedScenario for C10Handshake {
    type Plan = HsPlan;
    fn name(&self) -> &'static str {
        "e2e-policy-matrix"
    }
    fn budget(&self, tier: Tier) -> usize {
        POLICIES.len() * IDENTS.len() + match tier {
            Tier::Quick => 2000,
            Tier::Thorough => 200_000,
        }
    }
    fn generate(&self, seed: u64, index: usize, _tier: Tier) -> HsPlan {
        let mut rng = Rng::new(seed, "c10-hsplan");
        let mut net = NetCfg::clean(rng.next_u64());
        net.lat_min_us = *rng.pick(&[200u64, 2_000]);
        let (policy, ident) = if index < POLICIES.len() * IDENTS.len() {
            (POLICIES[index % POLICIES.len()], IDENTS[index / POLICIES.len()])
        } else {
            // on the simulated clock the window ends can be approached to the second
            let key = if rng.chance_pm(750) { KeyKind::P256 } else { *rng.pick(&[KeyKind::P384, KeyKind::Ed25519]) };
            let window = if rng.coin() { *rng.pick(&WINDOWS) } else { rng.range(1, 20 * DAY as u64) as i64 };
            let start_off = -match rng.below(6) {
                0 => -1,
                1 => 0,
                2 => 1,
                3 => window,
                4 => window + 1,
                _ => rng.range(0, (window + DAY) as u64) as i64,
            };
            (Policy::PinnedOnSimClock(if rng.chance_pm(800) { HashSet::Exactly } else { HashSet::ManyWith }), Ident::Custom { key, start_off, window })
        };
        HsPlan { seed, rt: RtKnobs::from_rng(&mut rng), net, policy, ident }
    }
    fn execute(&self, plan: &HsPlan, trace: bool) -> Exec {
        exec_hs(plan, trace)
    }
    fn exhaustive_prefix(&self, _tier: Tier) -> Option<usize> {
        Some(POLICIES.len() * IDENTS.len())
    }
    fn faulty(&self) -> bool {
        true
    }
}

// ---- (c) the default trust policy does not take its roots from the caller's environment ---------

#[derive(Serialize, Deserialize, Clone, Debug)]
pub struct EnvPlan {
    pub seed: u64,
    pub rt: RtKnobs,
    /// 0: SSL_CERT_FILE names the server's certificate; 1: SSL_CERT_DIR names a directory holding it
    pub var: u8,
}

pub fn exec_env(p: &EnvPlan, trace: bool) -> Exec {
    let mut ex = Exec::new();
    let p = Arc::new(p.clone());
    let p2 = p.clone();
    let netslot: Arc<Mutex<Option<SimNet>>> = Arc::new(Mutex::new(None));
    let ns2 = netslot.clone();
    let real_now = std::time::SystemTime::now().duration_since(std::time::UNIX_EPOCH).unwrap().as_secs() as i64;
    let out = simrt::run(&p.rt, p.seed, Duration::from_secs(120), move || async move {
        let p = p2;
        let net = SimNet::new(NetCfg::clean(p.seed), trace);
        *ns2.lock().unwrap() = Some(net.clone());
        let mut r = Rng::new(p.seed, "c10-env");
        // a self-signed server certificate that chains to no platform root
        let nb = real_now - 2 * DAY;
        let (der, k) = make_cert(KeyKind::P256, nb, nb + 12 * DAY);
        let cert = Certificate::from_der(der).map_err(|e| format!("{e:?}"))?;
        let pem = cert.to_pem();
        let identity = Identity::new(CertificateChain::single(cert), PrivateKey::from_der_pkcs8(k));
        let saddr: SocketAddr = harness::SERVER_ADDR.parse().unwrap();
        let caddr: SocketAddr = harness::CLIENT_ADDR.parse().unwrap();
        let kn = EpKnobs::default();
        let (sep, _ss) = harness::server_on(&net, harness::server_config(saddr, &kn, identity, r.seed32()), saddr);
        // the environment of the process names that certificate as a trust anchor while the client
        // configuration is built (serialised: the environment is process-wide)
        let dir = std::env::temp_dir().join(format!("wtsim-c10-{}-{:x}", std::process::id(), p.seed));
        let (mut ccfg, env_after) = {
            let _g = NATIVE_LOCK.lock().unwrap();
            std::fs::create_dir_all(&dir).map_err(|e| format!("{e:?}"))?;
            let file = dir.join("impostor.pem");
            std::fs::write(&file, pem.as_bytes()).map_err(|e| format!("{e:?}"))?;
            let (name, value) = if p.var == 0 { ("SSL_CERT_FILE", file.clone()) } else { ("SSL_CERT_DIR", dir.clone()) };
            let before = std::env::var_os(name);
            std::env::set_var(name, &value);
            let cfg = ClientConfig::builder().with_bind_address(caddr).with_native_certs().build();
            let after = std::env::var_os(name);
            match before {
                Some(b) => std::env::set_var(name, b),
                None => std::env::remove_var(name),
            }
            let _ = std::fs::remove_dir_all(&dir);
            (cfg, after == Some(value.into_os_string()))
        };
        ccfg.quic_endpoint_config_mut().rng_seed(Some(r.seed32()));
        let (cep, _cs) = harness::client_on(&net, ccfg, caddr);
        let offered = Arc::new(Mutex::new(0u32));
        let o2 = offered.clone();
        tokio::spawn(async move {
            loop {
                let inc = sep.accept().await;
                let o3 = o2.clone();
                tokio::spawn(async move {
                    if let Ok(req) = inc.await {
                        *o3.lock().unwrap() += 1;
                        if let Ok(c) = req.accept().await {
                            c.closed().await;
                        }
                    }
                });
            }
        });
        let res = tokio::time::timeout(Duration::from_secs(60), cep.connect(format!("https://{}/c10-env", harness::SERVER_ADDR))).await;
        let connected = matches!(res, Ok(Ok(_)));
        tokio::time::sleep(Duration::from_secs(1)).await;
        let off = *offered.lock().unwrap();
        Ok::<_, String>((connected, off, env_after))
    });
    sut::finish_exec(&mut ex, &netslot, trace);
    if !out.panics.is_empty() {
        ex.violation("C10/panic", out.panics.join(" | "));
        return ex;
    }
    match out.value {
        None => ex.violation("C10/run-did-not-finish", "exceeded 120 s simulated".into()),
        Some(Err(e)) => ex.violation("C10/setup", e),
        Some(Ok((connected, offered, env_kept))) => {
            ex.nontrivial = true;
            let var = if p.var == 0 { "SSL_CERT_FILE" } else { "SSL_CERT_DIR" };
            if connected || offered > 0 {
                ex.violation(
                    "C10/unacceptable-cert-accepted",
                    format!("default trust policy (with_native_certs) built while {var} named the server's self-signed certificate: connect() {} and the server application was offered {offered} request(s); that certificate chains to no platform root", if connected { "succeeded" } else { "failed" }),
                );
            } else if !env_kept {
                ex.violation("C10/environment-changed", format!("{var} was not left as the caller had set it after with_native_certs()"));
            }
            ex.probe("default_policy_refusals", 1);
        }
    }
    ex
}

pub struct C10Env;

impl TypedScenario for C10Env {
    type Plan = EnvPlan;
    fn name(&self) -> &'static str {
        "policy-default-roots-environment"
    }
    fn budget(&self, tier: Tier) -> usize {
        match tier {
            Tier::Quick => 8,
            Tier::Thorough => 200,
        }
    }
    fn generate(&self, seed: u64, index: usize, _tier: Tier) -> EnvPlan {
        let mut rng = Rng::new(seed, "c10-envplan");
        EnvPlan { seed, rt: RtKnobs::from_rng(&mut rng), var: (index % 2) as u8 }
    }
    fn execute(&self, plan: &EnvPlan, trace: bool) -> Exec {
        exec_env(plan, trace)
    }
}

pub fn def() -> PropertyDef {
    PropertyDef {
        id: "C10",
        scenarios: vec![Box::new(Typed(C10Clock)), Box::new(Typed(C10Handshake)), Box::new(Typed(C10Env))],
        rule: "clock-verifier: certificates generated with rcgen (keys P-256 / P-384 / Ed25519; validity windows 1 h, 13 d, 14 d - 1 s, 14 d, 14 d + 1 s, 15 d, 10 y and sampled 1 s..40 d) are presented to the real ServerHashVerification::verify_server_cert under a simulated wall clock reading not_before -1/0/+1 s, mid-window, not_after -1/0/+1 s and six seeded skews / jumps (seconds to 400 days, forwards and backwards), with hash sets {empty, exactly the leaf, another, many with, many without}; the first 105 runs are the full window x key x hash-set grid. e2e-policy-matrix: real client and server handshakes over the simulated network for 12 trust policies (five hash sets via with_server_certificate_hashes, native certs, no validation, and five hash sets in a custom TLS configuration whose rustls TimeProvider is a simulated clock) x 9 server identities (Identity::self_signed; P-256 valid / expired / not yet valid / 22 d / 10 y / exactly 14 d; P-384; Ed25519) exhaustively, then sampled handshakes on the simulated clock with the window ends approached to the second. Oracle: accept iff hash in set AND not_before <= now <= not_after AND validity <= 14 d AND key is ECDSA P-256; native-cert trust never accepts these self-signed leaves; no-validation always does; a refused handshake yields no Connection on the client and no session request on the server. Every run is non-trivial; distinct = distinct plan hashes. policy-default-roots-environment: while the client configuration is built with with_native_certs(), SSL_CERT_FILE or SSL_CERT_DIR of the process names the server's self-signed certificate (serialised under a process-wide lock); the handshake must still be refused - the default policy trusts platform roots only - and the variable is left as the caller set it.",
        assumptions: vec![
            "where the handshake reads the real clock (policies other than the simulated-clock one) every certificate window is at least two days away from the real time, so the verdict does not depend on when the check runs",
            "rcgen / ring generate the test certificates; x509-parser, rustls and ring are real but trusted",
        ],
        real_components: vec!["wtransport::tls::client::ServerHashVerification", "wtransport config builders / endpoint / driver", "rustls", "ring", "x509-parser", "quinn", "tokio scheduler + timer wheel (paused clock)"],
        stub_components: vec!["wall clock (simulated: verifier argument and injected rustls TimeProvider)", "UDP sockets (SimNet)"],
    }
}
