//! C07 — streams are independent: a stalled stream never blocks the others.
//!
//! RAW: a scripted peer opens k stalled streams (no byte / partial preamble / full preamble
//! then silence / accepted-but-unread data) interleaved with healthy WebTransport streams and
//! datagrams, then closes the session with a capsule. Bounded liveness on a fault-free
//! network: everything healthy must reach an application that keeps accepting.

use crate::core::*;
use crate::harness::{self, EpKnobs};
use crate::props::c01::pattern;
use crate::rawpeer as rp;
use crate::refcodec as rc;
use crate::rng::Rng;
use crate::simnet::{NetCfg, SimNet};
use crate::simrt::{self, RtKnobs};
use crate::sut;
use serde::{Deserialize, Serialize};
use std::collections::{BTreeMap, BTreeSet};
use std::net::SocketAddr;
use std::sync::{Arc, Mutex};
use std::time::Duration;
use wtransport::quinn;
use wtransport::Connection;

#[derive(Serialize, Deserialize, Clone, Debug, PartialEq)]
pub enum StallPos {
    NoByte,
    PartialType,
    TypeOnly,
    PartialSessionId,
    PreambleThenSilence,
    AcceptedUnread,
    /// bidi, server under test: a complete further CONNECT request, left open (the first one
    /// waits in the session hand-off queue nobody drains any more, later ones are refused)
    ExtraRequest,
    /// bidi, server under test: the first half of such a request's HEADERS frame
    PartialRequest,
}

#[derive(Serialize, Deserialize, Clone, Debug)]
pub enum Op {
    Stalled { bidi: bool, pos: StallPos, sid_len: usize },
    Healthy { bidi: bool, len: usize, key: u64, finish: bool },
    Datagram { key: u64, len: usize },
    Quiesce,
    Sleep { us: u64 },
}

#[derive(Serialize, Deserialize, Clone, Debug)]
pub struct Plan {
    pub seed: u64,
    pub rt: RtKnobs,
    pub net: NetCfg,
    /// true: the endpoint under test is the server (raw client); false: it is the client
    pub server_under_test: bool,
    pub k: EpKnobs,
    pub ops: Vec<Op>,
    pub final_datagrams: usize,
    pub close_code: u32,
    /// the application accepts streams from the start but calls receive_datagram only after
    /// the healthy streams have been checked (datagrams pile up unread meanwhile)
    #[serde(default)]
    pub lazy_datagrams: bool,
    /// after the healthy streams have been checked the stalls are simply left in place for this
    /// long (ms), then one more healthy stream of each kind is opened and must be delivered: a
    /// stall may last as long as the peer likes
    #[serde(default)]
    pub late_hold_ms: u64,
    /// after the healthy streams have been checked the peer gives its stalled streams up: it
    /// resets every one of them with this code (a peer may abandon a stream at any point of its
    /// preamble); the rest of the session must not notice
    #[serde(default)]
    pub abandon_code: Option<u64>,
}

pub fn gen_plan(seed: u64, index: usize, _tier: Tier) -> Plan {
    let mut rng = Rng::new(seed, "c07");
    let rt = RtKnobs::from_rng(&mut rng);
    let mut net = NetCfg::clean(rng.next_u64());
    net.lat_min_us = *rng.pick(&[200u64, 1_000, 10_000]);
    let mut k = EpKnobs::default();
    k.stream_recv_window = *rng.pick(&[4096u64, 16384, 65536]);
    k.recv_window = k.stream_recv_window * *rng.pick(&[1u64, 2, 8]);
    let server_under_test = index % 2 == 0;
    // one run in twelve: the endpoint under test is built with the library's own default transport
    // configuration and one accepted stream is left unread with a whole default stream window
    // (1.25 MB) of data in it
    let defaults = rng.chance_pm(80);
    if defaults {
        k.library_defaults = true;
        k.stream_recv_window = 1_250_000;
        k.recv_window = u64::MAX >> 2;
    }
    let nstalled = match rng.below(8) {
        0 | 1 | 2 => 1,
        3 => 2,
        4 => rng.usize(3, 4),
        5 => rng.usize(5, 6),
        6 => rng.usize(7, 12),
        _ => rng.usize(13, 40),
    };
    let nhealthy = rng.usize(1, 5);
    let mut ops = Vec::new();
    let same_kind = rng.coin();
    let kind0 = rng.coin();
    let allowed: Vec<StallPos> = if rng.chance_pm(300) {
        vec![StallPos::PreambleThenSilence, StallPos::AcceptedUnread]
    } else {
        vec![
            StallPos::NoByte,
            StallPos::PartialType,
            StallPos::TypeOnly,
            StallPos::PartialSessionId,
            StallPos::PreambleThenSilence,
            StallPos::AcceptedUnread,
        ]
    };
    let requests_pm = if server_under_test && rng.chance_pm(300) { 400 } else { 0 };
    if defaults {
        ops.push(Op::Stalled { bidi: rng.coin(), pos: StallPos::AcceptedUnread, sid_len: 1 });
    }
    for _ in 0..(if defaults { nstalled.min(2) } else { nstalled }) {
        if rng.chance_pm(requests_pm) {
            ops.push(Op::Stalled { bidi: true, pos: if rng.chance_pm(700) { StallPos::ExtraRequest } else { StallPos::PartialRequest }, sid_len: 2 });
            continue;
        }
        ops.push(Op::Stalled {
            bidi: if same_kind { kind0 } else { rng.coin() },
            pos: rng.pick(&allowed).clone(),
            sid_len: *rng.pick(&[2usize, 4, 8]),
        });
    }
    for _ in 0..nhealthy {
        ops.push(Op::Healthy {
            bidi: if rng.chance_pm(700) { kind0 } else { rng.coin() },
            len: *rng.pick(&[0usize, 1, 10, 100, 1000, 5000]),
            key: rng.next_u64(),
            finish: true,
        });
    }
    let lazy_datagrams = rng.chance_pm(250);
    for _ in 0..(if lazy_datagrams { rng.usize(2, 5) } else { rng.usize(0, 3) }) {
        ops.push(Op::Datagram { key: rng.next_u64(), len: rng.usize(4, 200) });
    }
    match rng.below(3) {
        0 => {} // stalled first
        1 => rng.shuffle(&mut ops),
        _ => ops.reverse(),
    }
    // sprinkle quiescence points / sleeps so that "opened before" and "opened after" are real
    let mut with_gaps = Vec::new();
    for op in ops {
        with_gaps.push(op);
        match rng.below(4) {
            0 => with_gaps.push(Op::Quiesce),
            1 => with_gaps.push(Op::Sleep { us: rng.range(1, 50_000) }),
            _ => {}
        }
    }
    Plan {
        seed,
        rt,
        net,
        server_under_test,
        k,
        ops: with_gaps,
        final_datagrams: rng.usize(1, 3),
        close_code: rng.next_u64() as u32,
        lazy_datagrams,
        late_hold_ms: if rng.chance_pm(300) { *rng.pick(&[6_000u64, 12_000, 20_000]) } else { 0 },
        abandon_code: if rng.chance_pm(250) { Some(*rng.pick(&[0u64, 1, 0x10c, 0x52e4a40fa8db, (1 << 62) - 1])) } else { None },
    }
}

#[derive(Default)]
struct AppState {
    /// receive_datagram is only called once this is set
    datagrams_wanted: bool,
    healthy_ids: BTreeSet<u64>,
    got_streams: BTreeMap<u64, Vec<u8>>,
    accepted: BTreeSet<u64>,
    datagrams: Vec<Vec<u8>>,
    close_seen: Vec<String>,
    errors: Vec<String>,
}

fn spawn_app(conn: Connection, st: Arc<Mutex<AppState>>) {
    {
        let (conn, st) = (conn.clone(), st.clone());
        tokio::spawn(async move {
            loop {
                match conn.accept_uni().await {
                    Ok(mut recv) => {
                        let id = recv.id().into_u64();
                        st.lock().unwrap().accepted.insert(id);
                        let st = st.clone();
                        tokio::spawn(async move {
                            // the application reads only the streams it is told are healthy;
                            // everything else it keeps (accepted-but-unread)
                            loop {
                                if st.lock().unwrap().healthy_ids.contains(&id) {
                                    break;
                                }
                                tokio::time::sleep(Duration::from_millis(5)).await;
                            }
                            let mut all = Vec::new();
                            let mut buf = vec![0u8; 2048];
                            loop {
                                match recv.read(&mut buf).await {
                                    Ok(Some(n)) => all.extend_from_slice(&buf[..n]),
                                    Ok(None) => break,
                                    Err(e) => {
                                        st.lock().unwrap().errors.push(format!("uni {id} read: {e:?}"));
                                        return;
                                    }
                                }
                            }
                            st.lock().unwrap().got_streams.insert(id, all);
                        });
                    }
                    Err(e) => {
                        st.lock().unwrap().close_seen.push(format!("accept_uni: {e:?}"));
                        break;
                    }
                }
            }
        });
    }
    {
        let (conn, st) = (conn.clone(), st.clone());
        tokio::spawn(async move {
            loop {
                match conn.accept_bi().await {
                    Ok((send, mut recv)) => {
                        let id = recv.id().into_u64();
                        st.lock().unwrap().accepted.insert(id);
                        let st = st.clone();
                        tokio::spawn(async move {
                            let _keep = send;
                            loop {
                                if st.lock().unwrap().healthy_ids.contains(&id) {
                                    break;
                                }
                                tokio::time::sleep(Duration::from_millis(5)).await;
                            }
                            let mut all = Vec::new();
                            let mut buf = vec![0u8; 2048];
                            loop {
                                match recv.read(&mut buf).await {
                                    Ok(Some(n)) => all.extend_from_slice(&buf[..n]),
                                    Ok(None) => break,
                                    Err(e) => {
                                        st.lock().unwrap().errors.push(format!("bi {id} read: {e:?}"));
                                        return;
                                    }
                                }
                            }
                            st.lock().unwrap().got_streams.insert(id, all);
                        });
                    }
                    Err(e) => {
                        st.lock().unwrap().close_seen.push(format!("accept_bi: {e:?}"));
                        break;
                    }
                }
            }
        });
    }
    tokio::spawn(async move {
        while !st.lock().unwrap().datagrams_wanted {
            tokio::time::sleep(Duration::from_millis(10)).await;
        }
        loop {
            match conn.receive_datagram().await {
                Ok(d) => st.lock().unwrap().datagrams.push(d.payload().to_vec()),
                Err(e) => {
                    st.lock().unwrap().close_seen.push(format!("receive_datagram: {e:?}"));
                    break;
                }
            }
        }
    });
}

fn preamble(bidi: bool, session_id: u64, sid_len: usize) -> (Vec<u8>, usize) {
    // returns (bytes, length of the type part)
    let mut b = Vec::new();
    rc::put_varint(if bidi { rc::FRAME_WT_STREAM } else { rc::STREAM_WT_UNI }, &mut b);
    let tl = b.len();
    rc::put_varint_len(session_id, sid_len.max(rc::varint_len(session_id)), &mut b);
    (b, tl)
}

struct Outcome {
    healthy: Vec<(u64, bool, Vec<u8>, String)>, // id, bidi, payload, description
    dgrams_sent_final: Vec<Vec<u8>>,
    stalled_desc: Vec<String>,
    /// the sending sides of the stalled streams (those not written by a task of their own)
    stalled_sends: Vec<quinn::SendStream>,
    keep: Vec<Box<dyn std::any::Any + Send>>,
}

async fn drive_raw(
    plan: &Plan,
    net: &SimNet,
    conn: &quinn::Connection,
    session_id: u64,
    app: &Arc<Mutex<AppState>>,
) -> Result<Outcome, String> {
    let mut out = Outcome { healthy: Vec::new(), dgrams_sent_final: Vec::new(), stalled_desc: Vec::new(), stalled_sends: Vec::new(), keep: Vec::new() };
    let window = plan.k.stream_recv_window as usize;
    // unread data must stay well below the *connection* window, otherwise the stall is the
    // transport's legitimate connection-level flow control, not a stream dependency
    let n_unread = plan.ops.iter().filter(|o| matches!(o, Op::Stalled { pos: StallPos::AcceptedUnread, .. })).count().max(1);
    let unread_each = if plan.k.library_defaults {
        // the whole stream window of the library's default configuration, preamble included
        window - 8
    } else {
        window.min(plan.k.recv_window as usize / 2 / n_unread).min(3000)
    };
    for op in &plan.ops {
        match op {
            Op::Stalled { bidi, pos, sid_len } => {
                let (pre, tl) = preamble(*bidi, session_id, *sid_len);
                let bytes: Vec<u8> = match pos {
                    StallPos::NoByte => vec![],
                    StallPos::PartialType => pre[..1].to_vec(),
                    StallPos::TypeOnly => pre[..tl].to_vec(),
                    StallPos::PartialSessionId => pre[..tl + 1].to_vec(),
                    StallPos::PreambleThenSilence => pre.clone(),
                    StallPos::AcceptedUnread => {
                        let mut b = pre.clone();
                        b.extend_from_slice(&vec![0xEE; unread_each]);
                        b
                    }
                    StallPos::ExtraRequest | StallPos::PartialRequest if plan.server_under_test => {
                        let f = rc::headers_frame(&rc::connect_request_fields("10.0.0.1:4433", "/c07-extra"), rc::EncStyle::PlainLiteral);
                        if matches!(pos, StallPos::ExtraRequest) { f } else { f[..f.len() / 2].to_vec() }
                    }
                    StallPos::ExtraRequest | StallPos::PartialRequest => vec![],
                };
                // a bulk write may wait for credit for ever (that is the point): it runs in its own task
                let bulk = bytes.len() > 100_000;
                if *bidi {
                    let (mut s, r) = conn.open_bi().await.map_err(|e| format!("raw open_bi: {e:?}"))?;
                    out.stalled_desc.push(format!("bidi#{} {:?}", rp::sid(s.id()), pos));
                    if bulk {
                        out.keep.push(Box::new((tokio::spawn(async move {
                            let _ = rp::write_all(&mut s, &bytes).await;
                            std::future::pending::<()>().await;
                        }), r)));
                        continue;
                    }
                    if !bytes.is_empty() {
                        rp::write_all(&mut s, &bytes).await?;
                    }
                    out.stalled_sends.push(s);
                    out.keep.push(Box::new(r));
                } else {
                    let mut s = conn.open_uni().await.map_err(|e| format!("raw open_uni: {e:?}"))?;
                    out.stalled_desc.push(format!("uni#{} {:?}", rp::sid(s.id()), pos));
                    if bulk {
                        out.keep.push(Box::new(tokio::spawn(async move {
                            let _ = rp::write_all(&mut s, &bytes).await;
                            std::future::pending::<()>().await;
                        })));
                        continue;
                    }
                    if !bytes.is_empty() {
                        rp::write_all(&mut s, &bytes).await?;
                    }
                    out.stalled_sends.push(s);
                }
            }
            Op::Healthy { bidi, len, key, finish } => {
                let (pre, _) = preamble(*bidi, session_id, 1);
                let payload = pattern(*key, *len);
                let mut bytes = pre;
                bytes.extend_from_slice(&payload);
                if *bidi {
                    let (mut s, r) = conn.open_bi().await.map_err(|e| format!("raw open_bi: {e:?}"))?;
                    let id = rp::sid(s.id());
                    app.lock().unwrap().healthy_ids.insert(id);
                    let fin = *finish;
                    // written by its own task: the script itself must never block on a stream
                    let h = tokio::spawn(async move {
                        let _ = rp::write_all(&mut s, &bytes).await;
                        if fin {
                            let _ = s.finish();
                        }
                        let _ = s.stopped().await;
                    });
                    out.healthy.push((id, true, payload, format!("bidi#{id} len={len}")));
                    out.keep.push(Box::new((h, r)));
                } else {
                    let mut s = conn.open_uni().await.map_err(|e| format!("raw open_uni: {e:?}"))?;
                    let id = rp::sid(s.id());
                    app.lock().unwrap().healthy_ids.insert(id);
                    let fin = *finish;
                    let h = tokio::spawn(async move {
                        let _ = rp::write_all(&mut s, &bytes).await;
                        if fin {
                            let _ = s.finish();
                        }
                        let _ = s.stopped().await;
                    });
                    out.healthy.push((id, false, payload, format!("uni#{id} len={len}")));
                    out.keep.push(Box::new(h));
                }
            }
            Op::Datagram { key, len } => {
                let mut d = rc::varint(session_id / 4);
                d.extend_from_slice(&pattern(*key, *len));
                let _ = conn.send_datagram(d.into());
            }
            Op::Quiesce => {
                net.quiesce(Duration::from_millis(50), Duration::from_secs(2)).await;
            }
            Op::Sleep { us } => tokio::time::sleep(Duration::from_micros(*us)).await,
        }
    }
    Ok(out)
}

pub fn execute(plan: &Plan, trace: bool) -> Exec {
    let mut ex = Exec::new();
    let plan = Arc::new(plan.clone());
    let p2 = plan.clone();
    let netslot: Arc<Mutex<Option<SimNet>>> = Arc::new(Mutex::new(None));
    let ns2 = netslot.clone();
    type R = Result<(Vec<(String, String)>, usize, usize, usize), String>;
    let out = simrt::run(&plan.rt, plan.seed, Duration::from_secs(300), move || async move {
        let plan = p2;
        let net = SimNet::new(plan.net.clone(), trace);
        *ns2.lock().unwrap() = Some(net.clone());
        let mut r = Rng::new(plan.seed, "c07-endpoints");
        let app: Arc<Mutex<AppState>> = Arc::new(Mutex::new(AppState::default()));
        app.lock().unwrap().datagrams_wanted = !plan.lazy_datagrams;
        let raw_transport = || {
            let mut k = EpKnobs::default();
            k.max_bi = 100;
            k.max_uni = 100;
            k.transport()
        };
        // ---- set up the endpoint under test + raw peer ------------------------------
        let (conn_raw, session_id, _keep_eps): (quinn::Connection, u64, Box<dyn std::any::Any + Send>);
        let mut raw_req: Box<dyn std::any::Any + Send>;
        let mut req_send: quinn::SendStream;
        if plan.server_under_test {
            let saddr: SocketAddr = harness::SERVER_ADDR.parse().unwrap();
            let (sep, _ssock) = harness::server_on(&net, harness::server_config(saddr, &plan.k, harness::fixed_identity(), r.seed32()), saddr);
            let (rep, _rsock) = rp::raw_client_endpoint(&net, rp::RAW_CLIENT_ADDR.parse().unwrap(), raw_transport(), r.seed32(), b"h3");
            let accept = async {
                let req = sep.accept().await.await.map_err(|e| format!("incoming: {e:?}"))?;
                req.accept().await.map_err(|e| format!("accept: {e:?}"))
            };
            let raw = rp::raw_client_session(&rep, saddr, "10.0.0.1:4433", "/c07");
            let (sconn, rs) = tokio::join!(accept, raw);
            let (sconn, rs) = match (sconn, rs) {
                (Ok(a), Ok(b)) => (a, b),
                (a, b) => return Err(format!("setup: {:?} / {:?}", a.err(), b.err())) as R,
            };
            spawn_app(sconn, app.clone());
            conn_raw = rs.conn.clone();
            session_id = rs.session_id;
            req_send = rs.req_send;
            raw_req = Box::new((rs.control, rs.req_recv));
            _keep_eps = Box::new((sep, rep));
        } else {
            let raddr: SocketAddr = rp::RAW_SERVER_ADDR.parse().unwrap();
            let (rep, _rsock) = rp::raw_server_endpoint(&net, raddr, raw_transport(), r.seed32());
            let caddr: SocketAddr = harness::CLIENT_ADDR.parse().unwrap();
            let (cep, _csock) = harness::client_on(&net, harness::client_config(caddr, &plan.k, r.seed32()), caddr);
            let raw = async {
                let mut rs = rp::raw_server_accept(&rep).await?;
                rp::write_all(&mut rs.req_send, &rc::headers_frame(&rp::status_fields("200"), rc::EncStyle::PlainLiteral)).await?;
                Ok::<_, String>(rs)
            };
            let url = format!("https://{}/c07", rp::RAW_SERVER_ADDR);
            let connect = async { cep.connect(url).await.map_err(|e| format!("connect: {e:?}")) };
            let (rs, cconn) = tokio::join!(raw, connect);
            let (rs, cconn) = match (rs, cconn) {
                (Ok(a), Ok(b)) => (a, b),
                (a, b) => return Err(format!("setup: {:?} / {:?}", a.err(), b.err())) as R,
            };
            spawn_app(cconn, app.clone());
            conn_raw = rs.conn.clone();
            session_id = rs.session_id;
            req_send = rs.req_send;
            raw_req = Box::new((rs.control, rs.req_recv));
            _keep_eps = Box::new((cep, rep));
        }
        let _ = &mut raw_req;
        net.note("established");

        // ---- scripted traffic ----------------------------------------------------------
        let mut o = drive_raw(&plan, &net, &conn_raw, session_id, &app).await?;
        net.note("script-done");
        let mut problems: Vec<(String, String)> = Vec::new();

        // every healthy stream must be delivered and read within the bound
        let deadline = tokio::time::Instant::now() + Duration::from_secs(30);
        loop {
            let done = {
                let st = app.lock().unwrap();
                o.healthy.iter().all(|(id, ..)| st.got_streams.contains_key(id))
            };
            if done || tokio::time::Instant::now() >= deadline {
                break;
            }
            tokio::time::sleep(Duration::from_millis(20)).await;
        }
        {
            let st = app.lock().unwrap();
            for (id, bidi, payload, desc) in &o.healthy {
                match st.got_streams.get(id) {
                    None => problems.push((
                        format!("C07/healthy-{}-not-delivered", if *bidi { "bidi" } else { "uni" }),
                        format!(
                            "healthy stream {desc} not delivered/readable 30 s after the script (accepted by app: {}); stalled: {:?}",
                            st.accepted.contains(id),
                            o.stalled_desc
                        ),
                    )),
                    Some(got) if got != payload => problems.push((
                        "C07/healthy-bytes-mismatch".into(),
                        format!("healthy stream {desc}: got {} bytes, want {}", got.len(), payload.len()),
                    )),
                    _ => {}
                }
            }
            for e in &st.errors {
                problems.push(("C07/healthy-read-error".into(), e.clone()));
            }
        }
        // the stalls stay; much later the connection must still take new streams
        let mut late_keep: Vec<Box<dyn std::any::Any + Send>> = Vec::new();
        let mut abandoned = 0usize;
        if let Some(code) = plan.abandon_code {
            for s in o.stalled_sends.iter_mut() {
                if s.reset(quinn::VarInt::from_u64(code).unwrap()).is_ok() {
                    abandoned += 1;
                }
            }
            net.quiesce(Duration::from_millis(50), Duration::from_secs(2)).await;
        }
        if plan.late_hold_ms > 0 || abandoned > 0 {
            tokio::time::sleep(Duration::from_millis(plan.late_hold_ms)).await;
            let mut p2 = (*plan).clone();
            p2.ops = vec![
                Op::Healthy { bidi: false, len: 100, key: plan.seed ^ 0x1a7e, finish: true },
                Op::Healthy { bidi: true, len: 100, key: plan.seed ^ 0x1a7f, finish: true },
            ];
            let o2 = drive_raw(&p2, &net, &conn_raw, session_id, &app).await?;
            let deadline = tokio::time::Instant::now() + Duration::from_secs(30);
            loop {
                let done = {
                    let st = app.lock().unwrap();
                    o2.healthy.iter().all(|(id, ..)| st.got_streams.contains_key(id))
                };
                if done || tokio::time::Instant::now() >= deadline {
                    break;
                }
                tokio::time::sleep(Duration::from_millis(20)).await;
            }
            let st = app.lock().unwrap();
            for (id, bidi, payload, desc) in &o2.healthy {
                if st.got_streams.get(id) != Some(payload) {
                    problems.push((
                        format!("C07/healthy-{}-not-delivered", if *bidi { "bidi" } else { "uni" }),
                        format!("healthy stream {desc} opened {} ms after the stalls began ({abandoned} of them abandoned by a reset) was not delivered intact within 30 s; stalled: {:?}", plan.late_hold_ms, o.stalled_desc),
                    ));
                }
            }
            late_keep = o2.keep;
        }
        let _ = &late_keep;
        // datagrams sent now (network quiet, no loss) must all arrive
        app.lock().unwrap().datagrams_wanted = true;
        net.quiesce(Duration::from_millis(50), Duration::from_secs(2)).await;
        let mut sent_final = Vec::new();
        for i in 0..plan.final_datagrams {
            let mut d = rc::varint(session_id / 4);
            let body = pattern(plan.seed ^ (i as u64 + 1), 16 + i);
            d.extend_from_slice(&body);
            if conn_raw.send_datagram(d.into()).is_ok() {
                sent_final.push(body);
            }
            // one at a time: the hand-off queue towards the application has capacity 1 and
            // overflowing datagrams may legitimately be dropped by the transport
            tokio::time::sleep(Duration::from_millis(100)).await;
        }
        tokio::time::sleep(Duration::from_secs(2)).await;
        {
            let st = app.lock().unwrap();
            for body in &sent_final {
                if !st.datagrams.iter().any(|d| d == body) {
                    problems.push((
                        "C07/datagram-not-delivered".into(),
                        format!("datagram of {} bytes sent on a quiet network not received; stalled: {:?}", body.len(), o.stalled_desc),
                    ));
                }
            }
        }
        // finally the session must close cleanly
        let cap = rc::frame(rc::FRAME_DATA, &rc::close_capsule(plan.close_code, b"bye"));
        let _ = req_send.write_all(&cap).await;
        let _ = req_send.finish();
        let deadline = tokio::time::Instant::now() + Duration::from_secs(30);
        loop {
            if app.lock().unwrap().close_seen.len() >= 3 || tokio::time::Instant::now() >= deadline {
                break;
            }
            tokio::time::sleep(Duration::from_millis(20)).await;
        }
        {
            let st = app.lock().unwrap();
            if st.close_seen.len() < 3 {
                problems.push((
                    "C07/close-not-reported".into(),
                    format!("only {:?} of accept_uni/accept_bi/receive_datagram reported the close within 30 s; stalled: {:?}", st.close_seen, o.stalled_desc),
                ));
            } else {
                let want = format!("code: {}", plan.close_code);
                for c in &st.close_seen {
                    if !(c.contains("ApplicationClosed") && c.contains(&want)) {
                        problems.push(("C07/close-misreported".into(), format!("{c} (wanted ApplicationClosed code {})", plan.close_code)));
                    }
                }
            }
        }
        let nh = o.healthy.len();
        let ns = o.stalled_desc.len();
        drop(o);
        Ok((problems, nh, ns, abandoned))
    });
    if let Some(net) = netslot.lock().unwrap().take() {
        ex.net = net.stats();
        ex.trace_hash = net.hash();
        ex.sim_us = net.now_us_at_end();
        if trace {
            ex.trace = net.take_trace();
        }
    }
    ex.probe("loop_iters", out.loop_iters);
    if !out.panics.is_empty() {
        ex.violation("C07/panic", out.panics.join(" | "));
        return ex;
    }
    match out.value {
        None => ex.violation("C07/run-did-not-finish", "scenario exceeded 300 s simulated".into()),
        // the script's own stream operations fail only when the connection is gone
        Some(Err(e)) if e.starts_with("raw open") => ex.violation("C07/connection-lost", format!("the connection ended while streams were merely stalled or abandoned: {e}")),
        Some(Err(e)) => ex.violation("C07/setup", e),
        Some(Ok((problems, nh, ns, abandoned))) => {
            ex.fault("stalled_stream_reset_by_peer", abandoned as u64);
            ex.probe("healthy_streams", nh as u64);
            ex.fault("peer_stream_stalled", ns as u64);
            ex.fault("datagrams_left_unread_runs", plan.lazy_datagrams as u64);
            ex.fault("stalls_held_for_seconds", plan.late_hold_ms / 1000);
            ex.nontrivial = nh > 0 && ns > 0;
            if let Some((c, d)) = problems.into_iter().next() {
                ex.violation(&c, d);
            }
        }
    }
    ex
}

pub struct C07Raw;

impl TypedScenario for C07Raw {
    type Plan = Plan;
    fn name(&self) -> &'static str {
        "raw-stalls"
    }
    fn budget(&self, tier: Tier) -> usize {
        match tier {
            Tier::Quick => 8000,
            Tier::Thorough => 1_000_000,
        }
    }
    fn generate(&self, seed: u64, index: usize, tier: Tier) -> Plan {
        gen_plan(seed, index, tier)
    }
    fn execute(&self, plan: &Plan, trace: bool) -> Exec {
        execute(plan, trace)
    }
    fn shrink(&self, plan: &Plan) -> Vec<Plan> {
        let v = serde_json::to_value(plan).unwrap();
        let mut c = shrink_array(&v, "/ops", 1);
        c.extend(shrink_num(&v, "/final_datagrams", 0));
        c.into_iter().filter_map(|v| serde_json::from_value(v).ok()).collect()
    }
}

// ---- the opening side: exhausted credit of one kind must not hold the other kind back ------------

/// Real client and server. The acceptor allows `limit` concurrent streams of kind A; the opener
/// opens as many, leaves them open (the acceptor never reads them), and has one more opening of
/// kind A waiting for credit. A stream of the other kind is then opened, written and finished:
/// it must reach the accepting application - streams are independent in the opening direction too.
#[derive(Serialize, Deserialize, Clone, Debug)]
pub struct OpenPlan {
    pub seed: u64,
    pub rt: RtKnobs,
    pub net: NetCfg,
    pub opener_is_client: bool,
    /// kind whose credit is exhausted
    pub stalled_bidi: bool,
    pub limit: u64,
    pub len: usize,
}

pub fn exec_open(plan: &OpenPlan, trace: bool) -> Exec {
    let mut ex = Exec::new();
    let plan = Arc::new(plan.clone());
    let p2 = plan.clone();
    let netslot: Arc<Mutex<Option<SimNet>>> = Arc::new(Mutex::new(None));
    let ns2 = netslot.clone();
    let out = simrt::run(&plan.rt, plan.seed, Duration::from_secs(300), move || async move {
        let plan = p2;
        let net = SimNet::new(plan.net.clone(), trace);
        *ns2.lock().unwrap() = Some(net.clone());
        let mut acc = EpKnobs::default();
        let opn = EpKnobs::default();
        if plan.stalled_bidi {
            acc.max_bi = plan.limit + if plan.opener_is_client { 1 } else { 0 }; // + the CONNECT stream
        } else {
            acc.max_uni = plan.limit + 1; // + the peer's control stream
        }
        let pair = if plan.opener_is_client { harness::pair(&net, plan.seed, &opn, &acc) } else { harness::pair(&net, plan.seed, &acc, &opn) };
        let (cconn, sconn) = harness::establish(&pair, &harness::default_url()).await.map_err(|e| format!("establish: {e}"))?;
        let (opener, acceptor) = if plan.opener_is_client { (cconn, sconn) } else { (sconn, cconn) };
        // the accepting application keeps accepting both kinds; it reads only the healthy kind
        let got: Arc<Mutex<Vec<Vec<u8>>>> = Arc::new(Mutex::new(Vec::new()));
        {
            let (a, got, read_uni) = (acceptor.clone(), got.clone(), plan.stalled_bidi);
            tokio::spawn(async move {
                let mut parked = Vec::new();
                while let Ok(mut r) = a.accept_uni().await {
                    if read_uni {
                        let got = got.clone();
                        tokio::spawn(async move {
                            let mut all = Vec::new();
                            let mut buf = [0u8; 1024];
                            while let Ok(Some(n)) = r.read(&mut buf).await {
                                all.extend_from_slice(&buf[..n]);
                            }
                            got.lock().unwrap().push(all);
                        });
                    } else {
                        parked.push(r);
                    }
                }
            });
        }
        {
            let (a, got, read_bi) = (acceptor.clone(), got.clone(), !plan.stalled_bidi);
            tokio::spawn(async move {
                let mut parked = Vec::new();
                while let Ok((s, mut r)) = a.accept_bi().await {
                    if read_bi {
                        let got = got.clone();
                        tokio::spawn(async move {
                            let _keep = s;
                            let mut all = Vec::new();
                            let mut buf = [0u8; 1024];
                            while let Ok(Some(n)) = r.read(&mut buf).await {
                                all.extend_from_slice(&buf[..n]);
                            }
                            got.lock().unwrap().push(all);
                        });
                    } else {
                        parked.push((s, r));
                    }
                }
            });
        }
        // exhaust the credit of the stalled kind
        let mut held: Vec<Box<dyn std::any::Any + Send>> = Vec::new();
        for i in 0..plan.limit {
            if plan.stalled_bidi {
                let (mut s, r) = tokio::time::timeout(Duration::from_secs(30), async { opener.open_bi().await.map_err(|e| format!("{e:?}"))?.await.map_err(|e| format!("{e:?}")) }).await.map_err(|_| format!("open_bi #{i} within the limit blocked"))??;
                let _ = s.write_all(b"x").await;
                held.push(Box::new((s, r)));
            } else {
                let mut s = tokio::time::timeout(Duration::from_secs(30), async { opener.open_uni().await.map_err(|e| format!("{e:?}"))?.await.map_err(|e| format!("{e:?}")) }).await.map_err(|_| format!("open_uni #{i} within the limit blocked"))??;
                let _ = s.write_all(b"x").await;
                held.push(Box::new(s));
            }
        }
        // one more of that kind: waits for credit (legitimately, for as long as the streams stay open)
        let waiting = {
            let (o, bidi) = (opener.clone(), plan.stalled_bidi);
            tokio::spawn(async move {
                if bidi {
                    let _ = o.open_bi().await;
                } else {
                    let _ = o.open_uni().await;
                }
            })
        };
        tokio::time::sleep(Duration::from_millis(300)).await;
        let over_limit_pending = !waiting.is_finished();
        // the other kind
        let payload = pattern(plan.seed, plan.len);
        let p2 = payload.clone();
        let (o, bidi) = (opener.clone(), !plan.stalled_bidi);
        let opened = tokio::time::timeout(Duration::from_secs(30), async move {
            if bidi {
                let (mut s, r) = o.open_bi().await.map_err(|e| format!("{e:?}"))?.await.map_err(|e| format!("{e:?}"))?;
                s.write_all(&p2).await.map_err(|e| format!("{e:?}"))?;
                s.finish().await.map_err(|e| format!("{e:?}"))?;
                drop(r);
            } else {
                let mut s = o.open_uni().await.map_err(|e| format!("{e:?}"))?.await.map_err(|e| format!("{e:?}"))?;
                s.write_all(&p2).await.map_err(|e| format!("{e:?}"))?;
                s.finish().await.map_err(|e| format!("{e:?}"))?;
            }
            Ok::<(), String>(())
        })
        .await;
        let g2 = got.clone();
        let want = payload.clone();
        let delivered = sut::wait_until(Duration::from_secs(30), move || g2.lock().unwrap().iter().any(|b| *b == want)).await;
        waiting.abort();
        drop(held);
        drop(pair);
        Ok::<_, String>((over_limit_pending, opened.map_err(|_| "pending 30 s".to_string()).and_then(|x| x), delivered))
    });
    sut::finish_exec(&mut ex, &netslot, trace);
    if !out.panics.is_empty() {
        ex.violation("C07/panic", out.panics.join(" | "));
        return ex;
    }
    match out.value {
        None => ex.violation("C07/run-did-not-finish", "exceeded 300 s simulated".into()),
        Some(Err(e)) => ex.violation("C07/setup", e),
        Some(Ok((pending, opened, delivered))) => {
            ex.nontrivial = pending;
            ex.fault("stream_credit_exhausted_by_open_streams", plan.limit);
            let (a, b) = if plan.stalled_bidi { ("bidirectional", "uni") } else { ("unidirectional", "bidi") };
            if let Err(e) = opened {
                ex.violation(
                    &format!("C07/healthy-{b}-not-delivered"),
                    format!("{} {a} streams are open and one more open is waiting for credit: opening / writing a {b} stream did not complete: {e}", plan.limit),
                );
            } else if !delivered {
                ex.violation(
                    &format!("C07/healthy-{b}-not-delivered"),
                    format!("{} {a} streams are open and one more open is waiting for credit: the {b} stream written afterwards was not delivered within 30 s", plan.limit),
                );
            }
        }
    }
    ex
}

pub struct C07Open;

impl TypedScenario for C07Open {
    type Plan = OpenPlan;
    fn name(&self) -> &'static str {
        "e2e-open-credit"
    }
    fn budget(&self, tier: Tier) -> usize {
        match tier {
            Tier::Quick => 800,
            Tier::Thorough => 80_000,
        }
    }
    fn generate(&self, seed: u64, index: usize, _tier: Tier) -> OpenPlan {
        let mut rng = Rng::new(seed, "c07-open");
        let mut net = NetCfg::clean(rng.next_u64());
        net.lat_min_us = *rng.pick(&[200u64, 1_000, 10_000]);
        OpenPlan {
            seed,
            rt: RtKnobs::from_rng(&mut rng),
            net,
            opener_is_client: index % 2 == 0,
            stalled_bidi: (index / 2) % 2 == 0,
            limit: *rng.pick(&[1u64, 2, 3, 8]),
            len: *rng.pick(&[0usize, 1, 100, 5000]),
        }
    }
    fn execute(&self, plan: &OpenPlan, trace: bool) -> Exec {
        exec_open(plan, trace)
    }
}

pub fn def() -> PropertyDef {
    PropertyDef {
        id: "C07",
        scenarios: vec![Box::new(Typed(C07Raw)), Box::new(Typed(C07Open))],
        rule: "Each run: a scripted raw QUIC peer (client role against the real server on even indexes, server role against the real client on odd ones) opens 1-40 stalled streams (uni/bidi; no byte, first byte of the 2-byte type, type without session id, first byte of a 2/4/8-byte session id, complete preamble then silence, complete preamble plus unread data; against the server also further complete or half-written CONNECT requests left open) interleaved in generated order with 1-5 healthy WebTransport streams (tagged payloads 0..5000 B), datagrams, quiescence points and sleeps; then datagrams on a quiet network and a close capsule. The application keeps accepting streams; in 30% of the runs the stalls are then held for another 6-20 s before one more healthy stream of each kind is opened; one run in twelve builds the endpoint with the library's default transport configuration and leaves a whole default stream window (1.25 MB) unread in one accepted stream; in a quarter of the runs the raw peer finally abandons every stalled stream with RESET_STREAM (codes 0, 1, 0x10c, 0x52e4a40fa8db, 2^62-1) before the later streams, datagrams and the close capsule; in a quarter of the runs it calls receive_datagram only after the healthy streams have been checked, so 2-5 datagrams sit unread meanwhile. Oracle (bounded liveness, no faults): every healthy stream accepted and read byte-exact within 30 s simulated, every late datagram received, all three pending calls report ApplicationClosed with the capsule's code within 30 s. e2e-open-credit: real endpoints; the opener has used up the acceptor's concurrent-stream credit of one kind (1-8 streams left open and unread) and one more opening of that kind waits for credit; a stream of the other kind opened then must be written, finished and delivered within 30 s. Non-trivial = at least one stalled and one healthy stream in the run (the over-limit opening really was pending); distinct = distinct plan hashes.",
        assumptions: vec![
            "bounded liveness is judged on a fault-free simulated network after the script has finished",
            "the raw peer and reference codec are harness code (validated against RFC worked examples at start-up)",
            "current-thread runtime; quinn/rustls/tokio executed for real but trusted",
        ],
        real_components: vec!["wtransport (endpoint under test)", "wtransport-proto", "quinn", "quinn-proto", "rustls", "ring", "tokio scheduler + timer wheel (paused clock)"],
        stub_components: vec!["UDP sockets (SimNet)", "OS clock (tokio paused clock)", "the peer: scripted raw quinn endpoint + independent reference codec"],
    }
}
