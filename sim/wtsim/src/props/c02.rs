//! C02 — session setup carries the request faithfully and mirrors the decision.
//!
//! E2E: real client and real server over SimNet. URLs come from a structured grammar whose
//! canonical authority and path-with-query are computed from the grammar pieces (never by
//! calling the code under test); additional header fields are chosen to hit QPACK static-table
//! names, Huffman-shrinking and non-shrinking strings and every prefix-integer length boundary.

use crate::core::*;
use crate::harness::{self, EpKnobs};
use crate::rng::Rng;
use crate::simnet::{NetCfg, SimNet};
use crate::simrt::{self, RtKnobs};
use crate::sut;
use serde::{Deserialize, Serialize};
use std::collections::BTreeMap;
use std::net::SocketAddr;
use std::pin::Pin;
use std::sync::{Arc, Mutex};
use std::time::Duration;
use wtransport::config::{DnsLookupFuture, DnsResolver};
use wtransport::endpoint::ConnectOptions;
use wtransport::error::ConnectingError;

#[derive(Serialize, Deserialize, Clone, Debug, PartialEq)]
pub enum Host {
    V4,
    V6,
    Dns { name: String, written: String },
}

#[derive(Serialize, Deserialize, Clone, Debug, PartialEq)]
pub enum Decision {
    Accept,
    AcceptWithHeaders(Vec<(String, String)>),
    Forbidden,
    NotFound,
    TooManyRequests,
}

#[derive(Serialize, Deserialize, Clone, Debug, PartialEq)]
pub enum Dns {
    Ok,
    NotFound,
    Error,
}

#[derive(Serialize, Deserialize, Clone, Debug)]
pub struct Plan {
    pub seed: u64,
    pub rt: RtKnobs,
    pub net: NetCfg,
    pub host: Host,
    /// None = no port in the URL (server listens on 443)
    pub port: Option<u16>,
    pub userinfo: String,
    pub path: String,
    pub query: Option<String>,
    pub fragment: Option<String>,
    pub headers: Vec<(String, String)>,
    pub decision: Decision,
    pub dns: Dns,
    /// per-stream receive window of both endpoints in bytes (0 = default): with 40-1000 bytes
    /// of credit the request and the response are written in pieces. (Below the size of the
    /// SETTINGS frame, ~25 B, two wtransport endpoints wait for each other until the idle
    /// timeout: each worker sends its SETTINGS to completion before it starts accepting the
    /// peer's streams. Transport windows are not in C02's quantifier; see DESIGN.md section 7.)
    #[serde(default)]
    pub stream_window: u64,
}

const STATIC_NAMES: [(&str, &str); 14] = [
    ("origin", ""),
    ("user-agent", ""),
    ("accept", "*/*"),
    ("accept-encoding", "gzip, deflate, br"),
    ("cache-control", "no-cache"),
    ("content-type", "text/plain"),
    ("authorization", ""),
    ("cookie", ""),
    ("x-frame-options", "sameorigin"),
    ("early-data", "1"),
    ("accept-language", ""),
    ("referer", ""),
    ("range", "bytes=0-"),
    ("purpose", "prefetch"),
];

const LEN_BOUNDS: [usize; 16] = [0, 1, 6, 7, 8, 14, 15, 16, 126, 127, 128, 129, 254, 255, 256, 300];

pub fn gen_value(rng: &mut Rng, len: usize) -> String {
    // three alphabets: short Huffman codes (shrinks), long Huffman codes (does not shrink), mixed
    let alpha: &[u8] = match rng.below(3) {
        0 => b"aeiost012 ",
        1 => b"#$<>@[]^{}~|`\\\"!*;",
        _ => b"abcdefghijklmnopqrstuvwxyzABCDEFGHIJKLMNOPQRSTUVWXYZ0123456789-._~:/?#[]@!$&'()*+,;=% ",
    };
    let mut s: Vec<u8> = (0..len).map(|_| *rng.pick(alpha)).collect();
    // no leading / trailing whitespace (RFC 9110 field values)
    if let Some(f) = s.first_mut() {
        if *f == b' ' {
            *f = b'x';
        }
    }
    if let Some(l) = s.last_mut() {
        if *l == b' ' {
            *l = b'y';
        }
    }
    String::from_utf8(s).unwrap()
}

fn gen_token(rng: &mut Rng, len: usize) -> String {
    // RFC 9110 token characters (lower-case letters only, as HTTP/3 requires of field names)
    let alpha = b"abcdefghijklmnopqrstuvwxyz0123456789-_.!#$%&'*+^`|~";
    let mut s: Vec<u8> = (0..len.max(1)).map(|_| *rng.pick(alpha)).collect();
    // mostly a letter first; otherwise any token character - digits and ! # $ % & ' * + - . sort
    // below ':' (pseudo-headers must still come first on the wire), ^ _ ` | ~ above the letters
    if rng.chance_pm(600) {
        s[0] = b'x';
    }
    String::from_utf8(s).unwrap()
}

fn gen_headers(rng: &mut Rng, budget: usize) -> Vec<(String, String)> {
    let n = rng.usize(0, 8);
    let mut out: Vec<(String, String)> = Vec::new();
    let mut used = 0usize;
    for _ in 0..n {
        let (name, value) = match rng.below(5) {
            0 => {
                let (n, v) = *rng.pick(&STATIC_NAMES);
                (n.to_string(), v.to_string()) // name and value both in the static table
            }
            4 => {
                // near misses of static-table rows: the value differs from the row's value only in
                // letter case, by one trailing / missing character, or belongs to another row of
                // the same name; the name may be one character away from a table name
                let rows: Vec<&(&str, &str)> = crate::refcodec::STATIC_TABLE.iter().filter(|(n, v)| !n.starts_with(':') && !v.is_empty()).collect();
                let (n, v) = **rng.pick(&rows);
                let value = match rng.below(6) {
                    0 => v.to_uppercase(),
                    1 => v.to_lowercase(),
                    2 => {
                        let mut c = v.chars();
                        match c.next() {
                            Some(f) => f.to_uppercase().collect::<String>() + c.as_str(),
                            None => String::new(),
                        }
                    }
                    3 => format!("{v}x"),
                    4 => v[..v.len() - 1].to_string(),
                    _ => v.to_string(),
                };
                let name = match rng.below(4) {
                    0 => format!("{n}s"),
                    1 => n[..n.len() - 1].to_string(),
                    _ => n.to_string(),
                };
                (name, value)
            }
            1 => {
                let (n, _) = *rng.pick(&STATIC_NAMES);
                let l = *rng.pick(&LEN_BOUNDS);
                (n.to_string(), gen_value(rng, l)) // static name, literal value
            }
            _ => {
                let nl = *rng.pick(&[1usize, 2, 6, 7, 8, 9, 20, 40]);
                let vl = if rng.coin() { *rng.pick(&LEN_BOUNDS) } else { rng.usize(0, 400) };
                (gen_token(rng, nl), gen_value(rng, vl))
            }
        };
        if out.iter().any(|(k, _)| *k == name) {
            continue;
        }
        if used + name.len() + value.len() + 8 > budget {
            break;
        }
        used += name.len() + value.len() + 8;
        out.push((name, value));
    }
    out
}

fn gen_path_segment(rng: &mut Rng) -> String {
    let alpha = b"abcdefghijklmnopqrstuvwxyzABCDEFGHIJKLMNOPQRSTUVWXYZ0123456789-_~!$&'()*+,;=:@";
    let n = rng.usize(1, 12);
    let mut s = String::new();
    for _ in 0..n {
        if rng.chance_pm(120) {
            s.push_str(*rng.pick(&["%20", "%2F", "%41", "%7E", "%C3%A9", "%00"]));
        } else {
            s.push(*rng.pick(alpha) as char);
        }
    }
    s
}

pub fn gen_plan(seed: u64, faulty: bool) -> Plan {
    let mut rng = Rng::new(seed, "c02");
    let rt = RtKnobs::from_rng(&mut rng);
    let mut net = NetCfg::clean(rng.next_u64());
    net.lat_min_us = *rng.pick(&[200u64, 1_000, 10_000]);
    if faulty {
        net.drop_pm = *rng.pick(&[10u32, 30]);
        net.dup_pm = *rng.pick(&[0u32, 20]);
        net.reorder_pm = *rng.pick(&[0u32, 50]);
        net.reorder_extra_us = rng.range(1_000, 10_000);
        net.fault_until_us = Some(20_000_000);
    }
    let host = match rng.below(5) {
        0 | 1 => Host::V4,
        2 => Host::V6,
        _ => {
            let name = rng
                .pick(&["example.test", "sub.host-1.example", "xn--bcher-kva.example", "a.b.c.d.e.test", "localhost", "h"])
                .to_string();
            let written = if rng.chance_pm(300) { name.to_uppercase() } else { name.clone() };
            Host::Dns { name, written }
        }
    };
    let port = match rng.below(4) {
        0 => None,
        1 => Some(443),
        2 => Some(4433),
        _ => Some(rng.range(1024, 65535) as u16),
    };
    let userinfo = match rng.below(6) {
        0 => "user@".to_string(),
        1 => "user:pa-ss@".to_string(),
        _ => String::new(),
    };
    let nseg = rng.usize(0, 4);
    let mut path = String::new();
    for _ in 0..nseg {
        path.push('/');
        path.push_str(&gen_path_segment(&mut rng));
    }
    if rng.chance_pm(200) {
        path.push('/');
    }
    let query = if rng.chance_pm(400) {
        // the WHATWG special-query percent-encode set also contains the apostrophe: keep the
        // generated URL in canonical form so the expectation does not depend on the url crate
        let mut q = gen_path_segment(&mut rng).replace('\'', "q");
        if rng.coin() {
            q.push_str("&k=v/with?chars");
        }
        Some(q)
    } else if rng.chance_pm(100) {
        Some(String::new())
    } else {
        None
    };
    let fragment = if rng.chance_pm(150) { Some("frag-ment".to_string()) } else { None };
    let headers = gen_headers(&mut rng, 3200);
    let decision = match rng.below(6) {
        0 | 1 => Decision::Accept,
        2 => Decision::AcceptWithHeaders(gen_headers(&mut rng, 1500)),
        3 => Decision::Forbidden,
        4 => Decision::NotFound,
        _ => Decision::TooManyRequests,
    };
    let dns = if matches!(host, Host::Dns { .. }) {
        match rng.below(10) {
            0 => Dns::NotFound,
            1 => Dns::Error,
            _ => Dns::Ok,
        }
    } else {
        Dns::Ok
    };
    let stream_window = if rng.chance_pm(200) { *rng.pick(&[40u64, 64, 200, 1000]) } else { 0 };
    Plan { seed, rt, net, host, port, userinfo, path, query, fragment, headers, decision, dns, stream_window }
}

#[derive(Debug)]
struct SimDns {
    map: BTreeMap<String, SocketAddr>,
    mode: Dns,
    asked: Arc<Mutex<Vec<String>>>,
}

impl DnsResolver for SimDns {
    fn resolve(&self, host: &str) -> Pin<Box<dyn DnsLookupFuture>> {
        self.asked.lock().unwrap().push(host.to_string());
        let r = match self.mode {
            Dns::Ok => Ok(self.map.get(host).copied()),
            Dns::NotFound => Ok(None),
            Dns::Error => Err(std::io::Error::new(std::io::ErrorKind::Other, "simulated resolver failure")),
        };
        Box::pin(async move {
            tokio::time::sleep(Duration::from_millis(3)).await;
            r
        })
    }
}

#[derive(Debug)]
struct Seen {
    authority: String,
    path: String,
    headers: BTreeMap<String, String>,
    origin: Option<String>,
    user_agent: Option<String>,
    server_session_id: Option<u64>,
}

pub fn execute(plan: &Plan, trace: bool) -> Exec {
    let mut ex = Exec::new();
    let plan = Arc::new(plan.clone());
    let p2 = plan.clone();
    let faulty = plan.net.has_faults();
    let netslot: Arc<Mutex<Option<SimNet>>> = Arc::new(Mutex::new(None));
    let ns2 = netslot.clone();
    let out = simrt::run(&plan.rt, plan.seed, Duration::from_secs(120), move || async move {
        let plan = p2;
        let net = SimNet::new(plan.net.clone(), trace);
        *ns2.lock().unwrap() = Some(net.clone());
        let mut r = Rng::new(plan.seed, "c02-endpoints");
        let port = plan.port.unwrap_or(443);
        let (saddr, caddr): (SocketAddr, SocketAddr) = match plan.host {
            Host::V6 => (format!("[fd00::1]:{port}").parse().unwrap(), "[fd00::2]:50000".parse().unwrap()),
            _ => (format!("10.0.0.1:{port}").parse().unwrap(), "10.0.0.2:50000".parse().unwrap()),
        };
        let mut k = EpKnobs::default();
        if plan.stream_window > 0 {
            k.stream_recv_window = plan.stream_window;
        }
        let (sep, _ss) = harness::server_on(&net, harness::server_config(saddr, &k, harness::fixed_identity(), r.seed32()), saddr);
        let mut ccfg = harness::client_config(caddr, &k, r.seed32());
        let asked = Arc::new(Mutex::new(Vec::new()));
        let host_written = match &plan.host {
            Host::V4 => "10.0.0.1".to_string(),
            Host::V6 => "[fd00::1]".to_string(),
            Host::Dns { written, .. } => written.clone(),
        };
        let host_canonical = match &plan.host {
            Host::V4 => "10.0.0.1".to_string(),
            Host::V6 => "[fd00::1]".to_string(),
            Host::Dns { name, .. } => name.clone(),
        };
        let mut map = BTreeMap::new();
        map.insert(format!("{host_canonical}:{port}"), saddr);
        ccfg.set_dns_resolver(SimDns { map, mode: plan.dns.clone(), asked: asked.clone() });
        let (cep, _cs) = harness::client_on(&net, ccfg, caddr);

        let mut url = format!("https://{}{}", plan.userinfo, host_written);
        if let Some(p) = plan.port {
            url.push_str(&format!(":{p}"));
        }
        url.push_str(&plan.path);
        if let Some(q) = &plan.query {
            url.push('?');
            url.push_str(q);
        }
        if let Some(f) = &plan.fragment {
            url.push('#');
            url.push_str(f);
        }
        net.note(&format!("url {url}"));

        let decision = plan.decision.clone();
        let server = tokio::spawn(async move {
            let inc = sep.accept().await;
            let req = inc.await.map_err(|e| format!("incoming: {e:?}"))?;
            let mut seen = Seen {
                authority: req.authority().to_string(),
                path: req.path().to_string(),
                headers: req.headers().iter().map(|(k, v)| (k.clone(), v.clone())).collect(),
                origin: req.origin().map(String::from),
                user_agent: req.user_agent().map(String::from),
                server_session_id: None,
            };
            let conn = match decision {
                Decision::Accept => Some(req.accept().await.map_err(|e| format!("accept: {e:?}"))?),
                Decision::AcceptWithHeaders(h) => Some(req.accept_with_headers(h).await.map_err(|e| format!("accept_with_headers: {e:?}"))?),
                Decision::Forbidden => {
                    req.forbidden().await;
                    None
                }
                Decision::NotFound => {
                    req.not_found().await;
                    None
                }
                Decision::TooManyRequests => {
                    req.too_many_requests().await;
                    None
                }
            };
            seen.server_session_id = conn.as_ref().map(|c| c.session_id().into_u64());
            Ok::<_, String>((seen, conn, sep))
        });
        let mut opts = ConnectOptions::builder(&url);
        for (k, v) in &plan.headers {
            opts = opts.add_header(k, v);
        }
        let cres = tokio::time::timeout(Duration::from_secs(60), cep.connect(opts.build())).await;
        let sres = if matches!(plan.dns, Dns::Ok) { tokio::time::timeout(Duration::from_secs(10), server).await.ok().and_then(|r| r.ok()) } else { None };
        let asked = asked.lock().unwrap().clone();
        Ok::<_, String>((url, cres, sres, asked, cep))
    });
    sut::finish_exec(&mut ex, &netslot, trace);
    if !out.panics.is_empty() {
        ex.violation("C02/panic", out.panics.join(" | "));
        return ex;
    }
    let (url, cres, sres, asked, _cep) = match out.value {
        None => {
            if faulty {
                ex.inconclusive("simulated-time limit under faults");
            } else {
                ex.violation("C02/run-did-not-finish", "exceeded 120 s simulated".into());
            }
            return ex;
        }
        Some(Err(e)) => {
            ex.violation("C02/setup", e);
            return ex;
        }
        Some(Ok(x)) => x,
    };
    let Ok(cres) = cres else {
        if faulty {
            ex.inconclusive("connect did not finish under faults");
        } else {
            ex.violation("C02/connect-hung", format!("connect({url}) did not return within 60 s"));
        }
        return ex;
    };
    ex.nontrivial = !faulty || ex.net.faults_fired() > 0;
    // ---- DNS failure modes ------------------------------------------------------------------
    match plan.dns {
        Dns::NotFound => {
            if !matches!(cres, Err(ConnectingError::DnsNotFound)) {
                ex.violation("C02/dns-error-mapping", format!("resolver returned no address; connect({url}) gave {:?}", cres.as_ref().map(|_| "Ok").map_err(|e| format!("{e:?}"))));
            }
            return ex;
        }
        Dns::Error => {
            if !matches!(cres, Err(ConnectingError::DnsLookup(_))) {
                ex.violation("C02/dns-error-mapping", format!("resolver failed; connect({url}) gave {:?}", cres.as_ref().map(|_| "Ok").map_err(|e| format!("{e:?}"))));
            }
            return ex;
        }
        Dns::Ok => {}
    }
    let port = plan.port.unwrap_or(443);
    let host_canonical = match &plan.host {
        Host::V4 => "10.0.0.1".to_string(),
        Host::V6 => "[fd00::1]".to_string(),
        Host::Dns { name, .. } => name.clone(),
    };
    if let Host::Dns { .. } = &plan.host {
        if asked != vec![format!("{host_canonical}:{port}")] {
            ex.violation("C02/dns-query", format!("connect({url}) asked the resolver for {asked:?}, expected [{host_canonical}:{port}]"));
            return ex;
        }
    }
    let Some(Ok((seen, sconn, _sep))) = sres else {
        if faulty && cres.is_err() {
            ex.inconclusive("handshake failed under faults");
        } else {
            ex.violation("C02/request-not-offered", format!("connect({url}) -> {:?} but the server application was not offered a request: {:?}", cres.as_ref().map(|_| "Ok").map_err(|e| format!("{e:?}")), sres.map(|r| r.map(|_| ()))));
        }
        return ex;
    };
    // ---- expected canonical request ----------------------------------------------------------
    let mut exp_authority = format!("{}{}", plan.userinfo, host_canonical);
    if port != 443 {
        exp_authority.push_str(&format!(":{port}"));
    }
    let mut exp_path = if plan.path.is_empty() { "/".to_string() } else { plan.path.clone() };
    if let Some(q) = &plan.query {
        exp_path.push('?');
        exp_path.push_str(q);
    }
    let mut exp: BTreeMap<String, String> = plan.headers.iter().cloned().collect();
    exp.insert(":method".into(), "CONNECT".into());
    exp.insert(":scheme".into(), "https".into());
    exp.insert(":protocol".into(), "webtransport".into());
    exp.insert(":authority".into(), exp_authority.clone());
    exp.insert(":path".into(), exp_path.clone());
    if seen.authority != exp_authority {
        ex.violation("C02/authority", format!("connect({url}): server saw :authority {:?}, expected {exp_authority:?}", seen.authority));
        return ex;
    }
    if seen.path != exp_path {
        ex.violation("C02/path", format!("connect({url}): server saw :path {:?}, expected {exp_path:?}", seen.path));
        return ex;
    }
    if seen.headers != exp {
        let diff: Vec<String> = exp
            .iter()
            .filter(|(k, v)| seen.headers.get(*k) != Some(v))
            .map(|(k, v)| format!("{k}: sent {v:?} got {:?}", seen.headers.get(k)))
            .chain(seen.headers.iter().filter(|(k, _)| !exp.contains_key(*k)).map(|(k, v)| format!("unexpected {k}={v:?}")))
            .collect();
        ex.violation("C02/headers", format!("connect({url}): header fields differ: {}", diff.join("; ")));
        return ex;
    }
    if seen.origin.as_deref() != exp.get("origin").map(|s| s.as_str()) || seen.user_agent.as_deref() != exp.get("user-agent").map(|s| s.as_str()) {
        ex.violation("C02/accessors", format!("origin()/user_agent() disagree with headers(): {:?} {:?}", seen.origin, seen.user_agent));
        return ex;
    }
    // ---- decision mirrored -------------------------------------------------------------------
    let accepted = matches!(plan.decision, Decision::Accept | Decision::AcceptWithHeaders(_));
    match (&cres, accepted) {
        (Ok(c), true) => {
            let cid = c.session_id().into_u64();
            if Some(cid) != seen.server_session_id || cid != 0 {
                ex.violation("C02/session-id", format!("client session id {cid}, server {:?}, CONNECT stream is 0", seen.server_session_id));
            }
            ex.probe("accepted", 1);
        }
        (Err(ConnectingError::SessionRejected), false) => ex.probe("rejected", 1),
        (other, _) => {
            if faulty && matches!(other, Err(ConnectingError::ConnectionError(_))) {
                ex.inconclusive("connection lost under faults");
            } else {
                ex.violation(
                    "C02/decision-not-mirrored",
                    format!("server decision {:?}; connect({url}) gave {:?}", plan.decision, other.as_ref().map(|_| "Ok(session)").map_err(|e| format!("{e:?}"))),
                );
            }
        }
    }
    drop(sconn);
    ex
}

pub struct C02E2E {
    pub faulty: bool,
}

impl TypedScenario for C02E2E {
    type Plan = Plan;
    fn name(&self) -> &'static str {
        if self.faulty {
            "e2e-faults"
        } else {
            "e2e-clean"
        }
    }
    fn budget(&self, tier: Tier) -> usize {
        match (tier, self.faulty) {
            (Tier::Quick, false) => 8000,
            (Tier::Quick, true) => 3000,
            (Tier::Thorough, false) => 400_000,
            (Tier::Thorough, true) => 100_000,
        }
    }
    fn generate(&self, seed: u64, _index: usize, _tier: Tier) -> Plan {
        gen_plan(seed, self.faulty)
    }
    fn execute(&self, plan: &Plan, trace: bool) -> Exec {
        execute(plan, trace)
    }
    fn faulty(&self) -> bool {
        self.faulty
    }
    fn shrink(&self, plan: &Plan) -> Vec<Plan> {
        let v = serde_json::to_value(plan).unwrap();
        let mut c = shrink_array(&v, "/headers", 0);
        c.extend(shrink_net(&v, "/net"));
        for (k, val) in [("/path", serde_json::json!("")), ("/query", serde_json::Value::Null), ("/fragment", serde_json::Value::Null), ("/userinfo", serde_json::json!("")), ("/decision", serde_json::json!("Accept")), ("/host", serde_json::json!("V4"))] {
            if let Some(x) = set_ptr(&v, k, val) {
                c.push(x);
            }
        }
        for (i, (_, val)) in plan.headers.iter().enumerate() {
            if val.len() > 1 {
                if let Some(x) = set_ptr(&v, &format!("/headers/{i}/1"), serde_json::json!(&val[..val.len() / 2])) {
                    c.push(x);
                }
            }
        }
        c.into_iter().filter_map(|v| serde_json::from_value(v).ok()).collect()
    }
}


// ---- RAW: every row of the QPACK static table, as decoded by the endpoint ---------------------

#[derive(Serialize, Deserialize, Clone, Debug)]
pub struct RowsPlan {
    pub base: crate::rawscript::Script,
    /// static-table row numbers sent as fully indexed field lines (distinct names)
    pub rows: Vec<usize>,
    /// static-table rows whose *name* is referenced with a literal value
    pub name_refs: Vec<(usize, String)>,
}

pub fn exec_rows(p: &RowsPlan, trace: bool) -> Exec {
    use crate::rawscript::*;
    use crate::refcodec as rc;
    // hand-assembled field section: required pseudo-headers (indexed where the table has them),
    // then the rows under test
    let mut fs = vec![0u8, 0u8];
    rc::put_prefix_int(0b11, 6, 15, &mut fs); // :method CONNECT
    rc::put_prefix_int(0b11, 6, 23, &mut fs); // :scheme https
    rc::put_prefix_int(0b0101, 4, 0, &mut fs); // :authority (name ref) + literal
    rc::put_string(0, 7, b"10.0.0.1:4433", false, &mut fs);
    rc::put_prefix_int(0b11, 6, 1, &mut fs); // :path /
    rc::put_string(0b001_0, 3, b":protocol", false, &mut fs);
    rc::put_string(0, 7, b"webtransport", true, &mut fs);
    let mut want: BTreeMap<String, String> = BTreeMap::new();
    for r in &p.rows {
        rc::put_prefix_int(0b11, 6, *r as u64, &mut fs);
        want.insert(rc::STATIC_TABLE[*r].0.to_string(), rc::STATIC_TABLE[*r].1.to_string());
    }
    for (r, v) in &p.name_refs {
        rc::put_prefix_int(0b0101, 4, *r as u64, &mut fs);
        rc::put_string(0, 7, v.as_bytes(), v.len() % 2 == 0, &mut fs);
        want.insert(rc::STATIC_TABLE[*r].0.to_string(), v.clone());
    }
    let mut control = rc::varint(rc::STREAM_CONTROL);
    control.extend_from_slice(&rc::frame(rc::FRAME_SETTINGS, &rc::settings_payload(&rc::default_peer_settings())));
    let mut s = p.base.clone();
    s.acts = vec![
        Act::OpenUni { slot: SLOT_CONTROL },
        Act::Write { slot: SLOT_CONTROL, hex: hex(&control) },
        Act::OpenBi { slot: SLOT_CONNECT },
        Act::Write { slot: SLOT_CONNECT, hex: hex(&rc::frame(rc::FRAME_HEADERS, &fs)) },
        Act::WaitSession,
    ];
    s.settle_ms = 100;
    let (mut ex, obs) = run_script(&s, trace, "C02");
    let Some(obs) = obs else { return ex };
    ex.nontrivial = true;
    ex.probe("static_rows_checked", (p.rows.len() + p.name_refs.len()) as u64);
    match &obs.sut {
        SutSession::Established { authority, path, headers, .. } => {
            if authority != "10.0.0.1:4433" || path != "/" {
                ex.violation("C02/static-table-row", format!("indexed pseudo-headers decoded as authority {authority:?} path {path:?}"));
            }
            for (k, v) in &want {
                if headers.get(k) != Some(v) {
                    ex.violation("C02/static-table-row", format!("static-table field {k:?}: sent {v:?} (rows {:?}, name refs {:?}), the server application saw {:?}", p.rows, p.name_refs.iter().map(|x| x.0).collect::<Vec<_>>(), headers.get(k)));
                }
            }
            if headers.len() != want.len() + 5 {
                ex.violation("C02/headers", format!("application saw {} fields, {} were sent", headers.len(), want.len() + 5));
            }
        }
        other => ex.violation("C02/request-not-offered", format!("request using static-table rows {:?} ended as {other:?} (raw peer {:?})", p.rows, obs.raw_close)),
    }
    ex
}

pub struct C02Rows;

impl TypedScenario for C02Rows {
    type Plan = RowsPlan;
    fn name(&self) -> &'static str {
        "raw-static-table-rows"
    }
    fn budget(&self, tier: Tier) -> usize {
        match tier {
            Tier::Quick => 99 + 1500,
            Tier::Thorough => 99 + 100_000,
        }
    }
    fn generate(&self, seed: u64, index: usize, _tier: Tier) -> RowsPlan {
        use crate::refcodec as rc;
        let mut rng = Rng::new(seed, "c02-rows");
        let base = crate::rawscript::base_script(seed, true);
        let usable = |r: usize| !rc::STATIC_TABLE[r].0.starts_with(':');
        let mut rows = Vec::new();
        let mut name_refs = Vec::new();
        if index < 99 {
            // one row per run, exhaustively (pseudo-header rows are exercised by the request itself / C18)
            if usable(index) {
                rows.push(index);
                let other = (index + 37) % 99;
                if usable(other) && rc::STATIC_TABLE[other].0 != rc::STATIC_TABLE[index].0 {
                    name_refs.push((other, format!("literal-{index}")));
                }
            }
        } else {
            let mut names = std::collections::BTreeSet::new();
            for _ in 0..rng.usize(1, 12) {
                let r = rng.usize(0, 98);
                if usable(r) && names.insert(rc::STATIC_TABLE[r].0) {
                    if rng.coin() {
                        rows.push(r);
                    } else {
                        let l = rng.usize(0, 40);
                        name_refs.push((r, super::c02::gen_value(&mut rng, l)));
                    }
                }
            }
        }
        RowsPlan { base, rows, name_refs }
    }
    fn execute(&self, plan: &RowsPlan, trace: bool) -> Exec {
        exec_rows(plan, trace)
    }
    fn exhaustive_prefix(&self, _tier: Tier) -> Option<usize> {
        Some(99)
    }
}

/// "connect yields a usable session iff the server accepts, fails as 'session rejected' iff the
/// server answers non-2xx": the library's own server can only answer 200 / 403 / 404 / 429, so
/// the rest of the status space comes from the scripted raw server of C18's status scenario.
pub struct C02Status;

impl TypedScenario for C02Status {
    type Plan = crate::props::c18::StatusPlan;
    fn name(&self) -> &'static str {
        "raw-response-status"
    }
    fn budget(&self, tier: Tier) -> usize {
        match tier {
            Tier::Quick => 1300,
            Tier::Thorough => 70_000,
        }
    }
    fn generate(&self, seed: u64, index: usize, tier: Tier) -> Self::Plan {
        crate::props::c18::gen_status(seed, index, tier)
    }
    fn execute(&self, plan: &Self::Plan, trace: bool) -> Exec {
        crate::props::c18::exec_status(plan, trace).relabel("C18/", "C02/")
    }
}

pub fn def() -> PropertyDef {
    PropertyDef {
        id: "C02",
        scenarios: vec![Box::new(Typed(C02E2E { faulty: false })), Box::new(Typed(C02E2E { faulty: true })), Box::new(Typed(C02Rows)), Box::new(Typed(C02Status))],
        rule: "Each run: real client connects to a real server over the simulated network with a URL generated from a grammar: host in {IPv4 literal, IPv6 literal, DNS name through a simulated resolver (incl. punycode IDN, upper-case spelling)}, port in {absent, explicit 443, 4433, random}, optional userinfo, 0-4 path segments over unreserved / sub-delim characters and percent-escapes, optional (possibly empty) query, optional fragment; 0-8 additional header fields (names: QPACK static-table names with matching value, with literal value, fresh lower-case tokens; values over Huffman-shrinking / non-shrinking / mixed alphabets with lengths on both sides of every prefix-integer boundary 6/7/8, 14/15/16, 126/127/128, 254/255/256; total below the 4096 B frame limit); server decision in {accept, accept_with_headers(extras), forbidden, not_found, too_many_requests}; resolver outcome in {address, none, error}. Oracle (expected values computed from the grammar pieces): server sees exactly the canonical authority (default port omitted), path-with-query (no fragment) and exactly the additional fields plus the five pseudo-headers; origin()/user_agent() agree; connect() is Ok iff accepted and SessionRejected iff rejected whatever the response extras; both sides report session id 0 = the CONNECT stream; resolver none -> DnsNotFound, error -> DnsLookup, and the resolver is asked for exactly host:port. Every completed run is non-trivial; distinct = distinct plan hashes. raw-static-table-rows: a raw client sends a valid CONNECT whose fields are hand-assembled QPACK representations - the pseudo-headers as indexed / name-referenced static rows, plus every non-pseudo row of the RFC 9204 static table as a fully indexed field line (each of the 99 rows once, then sampled sets) and name references with literal (Huffman / plain) values; the server application must see exactly the (name, value) of the reference table. raw-response-status: a raw server answers the real client's CONNECT with every integer status 0..1199 (quick; 0..65535 thorough) and malformed status strings; connect() must give a session iff the status is a three-digit 2xx and 'session rejected' for any other three-digit status in 100..599 (the scenario of C18, run here because the library's own server only ever answers 200 / 403 / 404 / 429).",
        assumptions: vec![
            "URLs are generated already in the canonical form of the WHATWG URL rules (no dot segments, no characters that need escaping) so that the expected value does not depend on the url crate",
            "under faults a handshake that dies is inconclusive; quinn/rustls/tokio are real but trusted",
        ],
        real_components: vec!["wtransport", "wtransport-proto", "quinn", "quinn-proto", "rustls", "ring", "url", "tokio scheduler + timer wheel (paused clock)"],
        stub_components: vec!["UDP sockets (SimNet)", "OS clock", "DNS (SimDns behind the DnsResolver trait)"],
    }
}
