//! C16 — everything the endpoint emits is well-formed HTTP/3 and WebTransport.
//!
//! RAW, both roles: the raw peer records every byte of every stream the endpoint opens and
//! every datagram it sends, and decodes them with the independent reference codec (trace
//! refinement against a decoder written from the specifications).

use crate::core::*;
use crate::harness::{self, EpKnobs};
use crate::props::c01::pattern;
use crate::props::c02;
use crate::rawpeer as rp;
use crate::refcodec as rc;
use crate::rng::Rng;
use crate::simnet::{NetCfg, SimNet};
use crate::simrt::{self, RtKnobs};
use crate::sut;
use serde::{Deserialize, Serialize};
use std::collections::BTreeMap;
use std::sync::{Arc, Mutex};
use std::time::Duration;
use wtransport::endpoint::ConnectOptions;
use wtransport::quinn;

#[derive(Serialize, Deserialize, Clone, Debug)]
pub enum AppOp {
    OpenUni { len: usize, key: u64 },
    OpenBi { len: usize, key: u64 },
    Datagram { len: usize, key: u64 },
}

#[derive(Serialize, Deserialize, Clone, Debug)]
pub struct Plan {
    pub seed: u64,
    pub rt: RtKnobs,
    pub net: NetCfg,
    pub server_under_test: bool,
    /// client under test: what it asks for
    pub path: String,
    pub query: Option<String>,
    pub headers: Vec<(String, String)>,
    /// server under test: what the application decides, and how many stream ids the raw
    /// client burns first (session id = 4 * burn)
    pub decision: c02::Decision,
    pub burn: u64,
    pub ops: Vec<AppOp>,
    /// per-stream receive window of the raw peer in bytes (0 = default 64 KiB): with a few
    /// bytes of credit every frame the endpoint writes is accepted in pieces with
    /// `Pending` in between, so a write future that loses its progress shows on the wire
    #[serde(default)]
    pub raw_stream_window: u64,
    /// the raw peer does not offer QUIC datagrams (no max_datagram_frame_size transport
    /// parameter): what the endpoint announces in its SETTINGS does not depend on the peer
    #[serde(default)]
    pub raw_no_datagrams: bool,
    /// 0: the run ends with the session open. Otherwise the raw peer ends the session at the
    /// end - 1: close capsule with `end_code`, 2: clean FIN of the CONNECT stream - and the
    /// code of the endpoint's CONNECTION_CLOSE is checked (H3_NO_ERROR, whatever the session code)
    #[serde(default)]
    pub end_style: u8,
    #[serde(default)]
    pub end_code: u32,
}

pub fn gen_plan(seed: u64, index: usize, tier: Tier) -> Plan {
    let mut rng = Rng::new(seed, "c16");
    let base = c02::gen_plan(seed, false);
    let server_under_test = index % 2 == 0;
    let mut net = NetCfg::clean(rng.next_u64());
    net.lat_min_us = *rng.pick(&[200u64, 1_000]);
    let burn = if !server_under_test {
        0
    } else {
        match (rng.below(8), tier) {
            (0, _) => 63,
            (1, _) => 64,
            (2, _) => rng.range(65, 300),
            (3, Tier::Thorough) => rng.range(16380, 16390),
            _ => 0,
        }
    };
    let nops = rng.usize(0, 6);
    let ops = (0..nops)
        .map(|_| {
            let len = *rng.pick(&[0usize, 1, 5, 63, 64, 500, 1100]);
            let key = rng.next_u64();
            match rng.below(3) {
                0 => AppOp::OpenUni { len, key },
                1 => AppOp::OpenBi { len, key },
                _ => AppOp::Datagram { len: len.min(1000), key },
            }
        })
        .collect();
    let decision = if server_under_test && rng.chance_pm(300) { base.decision.clone() } else { c02::Decision::Accept };
    let raw_stream_window = if rng.chance_pm(350) { *rng.pick(&[1u64, 3, 8, 16, 24, 32, 48, 100, 700]) } else { 0 };
    Plan { seed, rt: RtKnobs::from_rng(&mut rng), net, server_under_test, path: if base.path.is_empty() { "/".into() } else { base.path }, query: base.query, headers: base.headers, decision, burn, ops, raw_stream_window, raw_no_datagrams: rng.chance_pm(200), end_style: if rng.chance_pm(400) { rng.range(1, 2) as u8 } else { 0 }, end_code: *rng.pick(&[0u32, 1, 0x100, 0x10a, 0x10c, 0x1234_5678, u32::MAX]) }
}

/// The raw peer ends the session (capsule or FIN) and reports how the endpoint closed QUIC.
async fn end_session(style: u8, code: u32, rs: &mut quinn::SendStream, conn: &quinn::Connection) -> Option<String> {
    match style {
        0 => return None,
        1 => {
            let _ = rp::write_all(rs, &rc::frame(rc::FRAME_DATA, &rc::close_capsule(code, b"end of c16"))).await;
            let _ = rs.finish();
        }
        _ => {
            let _ = rs.finish();
        }
    }
    match tokio::time::timeout(Duration::from_secs(15), conn.closed()).await {
        Ok(quinn::ConnectionError::ApplicationClosed(a)) => Some(format!("application:{:#x}", a.error_code.into_inner())),
        Ok(other) => Some(format!("{other:?}")),
        Err(_) => Some("still open after 15 s".into()),
    }
}

struct Wire {
    rec: rp::RecState,
    /// raw bytes the endpoint wrote on the CONNECT stream (its request or its response)
    connect_bytes: Vec<u8>,
    session_id: u64,
    expected_payloads: Vec<(AppOp, Vec<u8>)>,
    established: bool,
    /// how the endpoint closed the transport after the raw peer ended the session (if it did)
    close_after_end: Option<String>,
    /// server under test: STOP_SENDING codes with which two unacceptable requests were refused
    /// (a GET; a CONNECT without :protocol) before the real request
    refusals: Option<(Option<u64>, Option<u64>)>,
}

fn check_field_section(fs: &rc::FieldSection, what: &str) -> Result<(), (String, String)> {
    let bad = |c: &str, d: String| Err((c.to_string(), d));
    if fs.required_insert_count != 0 || fs.delta_base != 0 || fs.sign {
        return bad("C16/qpack-prefix", format!("{what}: Required Insert Count {} / Base {} (sign {}) with a zero-capacity table", fs.required_insert_count, fs.delta_base, fs.sign));
    }
    let mut seen_regular = false;
    let mut names = std::collections::BTreeSet::new();
    for f in &fs.fields {
        if f.name.starts_with(':') {
            if seen_regular {
                return bad("C16/pseudo-header-order", format!("{what}: pseudo-header {} after a regular field", f.name));
            }
        } else {
            seen_regular = true;
        }
        if f.name.bytes().any(|b| b.is_ascii_uppercase()) {
            return bad("C16/field-name-case", format!("{what}: field name {:?} is not lower-case", f.name));
        }
        if !names.insert(f.name.clone()) && f.name.starts_with(':') {
            return bad("C16/duplicate-pseudo-header", format!("{what}: {} appears twice", f.name));
        }
    }
    Ok(())
}

fn check_wire(plan: &Plan, w: &Wire) -> Result<(), (String, String)> {
    let bad = |c: &str, d: String| Err((c.to_string(), d));
    // ---- error codes on the wire are registered values: a session ended by the peer's capsule
    // or FIN is answered with H3_NO_ERROR, never with the session's own 32-bit code
    if let Some((get, no_protocol)) = &w.refusals {
        if *get != Some(rc::H3_REQUEST_REJECTED) {
            return bad("C16/refusal-code-value", format!("a GET request was refused with STOP_SENDING {get:x?}, the registered value of H3_REQUEST_REJECTED is {:#x}", rc::H3_REQUEST_REJECTED));
        }
        if *no_protocol != Some(rc::H3_MESSAGE_ERROR) {
            return bad("C16/refusal-code-value", format!("a CONNECT request without :protocol was refused with STOP_SENDING {no_protocol:x?}, the registered value of H3_MESSAGE_ERROR is {:#x}", rc::H3_MESSAGE_ERROR));
        }
    }
    if let Some(c) = &w.close_after_end {
        if *c != format!("application:{:#x}", rc::H3_NO_ERROR) {
            return bad(
                "C16/close-code-value",
                format!("after the peer ended the session ({}) the endpoint closed the transport with {c}, expected H3_NO_ERROR (0x100)", if plan.end_style == 1 { format!("close capsule, session code {:#x}", plan.end_code) } else { "clean FIN".into() }),
            );
        }
    }
    // ---- unidirectional streams: exactly one control stream, the rest WebTransport --------
    let mut controls = 0;
    let mut wt_uni: Vec<Vec<u8>> = Vec::new();
    for (id, s) in &w.rec.uni {
        let Some((ty, tl)) = rc::get_varint(&s.bytes) else {
            if s.bytes.is_empty() {
                continue;
            }
            return bad("C16/uni-stream-type", format!("uni stream {id}: truncated type in {:02x?}", &s.bytes[..s.bytes.len().min(8)]));
        };
        if tl != rc::varint_len(ty) {
            return bad("C16/non-shortest-varint", format!("uni stream {id}: stream type {ty:#x} encoded on {tl} bytes"));
        }
        if ty == rc::STREAM_CONTROL {
            controls += 1;
            if s.fin || s.reset.is_some() {
                return bad("C16/control-stream-closed", format!("control stream {id} was finished/reset by the endpoint"));
            }
            let (frames, used) = rc::parse_frames(&s.bytes[tl..]);
            if used != s.bytes.len() - tl {
                return bad("C16/control-stream-garbage", format!("control stream {id}: {} trailing bytes do not form a frame", s.bytes.len() - tl - used));
            }
            let Some(first) = frames.first() else {
                return bad("C16/settings-missing", format!("control stream {id} carries no frame"));
            };
            if first.ty != rc::FRAME_SETTINGS {
                return bad("C16/settings-missing", format!("first frame on the control stream has type {:#x}", first.ty));
            }
            if first.ty_len != 1 || first.len_len != rc::varint_len(first.payload.len() as u64) {
                return bad("C16/non-shortest-varint", "SETTINGS frame header not in shortest form".into());
            }
            for f in &frames[1..] {
                if !rc::is_grease(f.ty) {
                    return bad("C16/control-stream-extra-frame", format!("frame type {:#x} after SETTINGS", f.ty));
                }
            }
            let Some(settings) = rc::parse_settings(&first.payload) else {
                return bad("C16/settings-malformed", format!("SETTINGS payload does not parse: {:02x?}", first.payload));
            };
            let mut map = BTreeMap::new();
            for (k, v, shortest) in &settings {
                if !shortest {
                    return bad("C16/non-shortest-varint", format!("setting {k:#x}={v} not in shortest form"));
                }
                if matches!(k, 0x00 | 0x02 | 0x03 | 0x04 | 0x05) {
                    return bad("C16/reserved-setting", format!("reserved setting id {k:#x} sent"));
                }
                if map.insert(*k, *v).is_some() {
                    return bad("C16/duplicate-setting", format!("setting {k:#x} sent twice"));
                }
            }
            for (k, want, name) in [
                (rc::SET_ENABLE_CONNECT_PROTOCOL, 1, "SETTINGS_ENABLE_CONNECT_PROTOCOL"),
                (rc::SET_H3_DATAGRAM, 1, "SETTINGS_H3_DATAGRAM"),
                (rc::SET_ENABLE_WEBTRANSPORT, 1, "SETTINGS_ENABLE_WEBTRANSPORT"),
                (rc::SET_QPACK_MAX_TABLE_CAPACITY, 0, "SETTINGS_QPACK_MAX_TABLE_CAPACITY"),
                (rc::SET_QPACK_BLOCKED_STREAMS, 0, "SETTINGS_QPACK_BLOCKED_STREAMS"),
            ] {
                // table capacity / blocked streams default to 0 when absent
                let got = map.get(&k).copied();
                let ok = got == Some(want) || (want == 0 && got.is_none());
                if !ok {
                    return bad("C16/settings-content", format!("{name} ({k:#x}) = {got:?}, expected {want}; all settings {map:x?}"));
                }
            }
            if let Some(v) = map.get(&rc::SET_WT_MAX_SESSIONS) {
                if *v == 0 {
                    return bad("C16/settings-content", "WEBTRANSPORT_MAX_SESSIONS = 0".into());
                }
            }
        } else if ty == rc::STREAM_WT_UNI {
            let Some((sid, sl)) = rc::get_varint(&s.bytes[tl..]) else {
                return bad("C16/wt-uni-header", format!("uni stream {id}: no session id after 0x54"));
            };
            if sl != rc::varint_len(sid) {
                return bad("C16/non-shortest-varint", format!("uni stream {id}: session id {sid} on {sl} bytes"));
            }
            if sid != w.session_id {
                return bad("C16/wt-uni-header", format!("uni stream {id} names session {sid}, the session is {}", w.session_id));
            }
            wt_uni.push(s.bytes[tl + sl..].to_vec());
        } else if ty == rc::STREAM_QPACK_ENC || ty == rc::STREAM_QPACK_DEC {
            // permitted; nothing may be inserted with a zero-capacity table
            if s.bytes.len() > tl && ty == rc::STREAM_QPACK_ENC {
                return bad("C16/qpack-encoder-instructions", format!("encoder stream carries {:02x?}", &s.bytes[tl..]));
            }
        } else if !rc::is_grease(ty) {
            return bad("C16/uni-stream-type", format!("uni stream {id} has unknown type {ty:#x}"));
        }
    }
    if controls != 1 {
        return bad("C16/control-stream-count", format!("{controls} control streams opened by the endpoint"));
    }
    // ---- the CONNECT stream ------------------------------------------------------------------
    let (frames, _) = rc::parse_frames(&w.connect_bytes);
    let mut it = frames.iter().filter(|f| !rc::is_grease(f.ty));
    let Some(h) = it.next() else {
        return bad("C16/connect-headers", format!("no frame from the endpoint on the CONNECT stream ({} bytes)", w.connect_bytes.len()));
    };
    if h.ty != rc::FRAME_HEADERS {
        return bad("C16/connect-headers", format!("first frame on the CONNECT stream has type {:#x}", h.ty));
    }
    if h.ty_len != 1 || h.len_len != rc::varint_len(h.payload.len() as u64) {
        return bad("C16/non-shortest-varint", "HEADERS frame header not in shortest form".into());
    }
    let fs = match rc::qpack_decode(&h.payload) {
        Ok(fs) => fs,
        Err(e) => return bad("C16/qpack-undecodable", format!("field section rejected by the reference decoder: {e}; bytes {:02x?}", &h.payload[..h.payload.len().min(40)])),
    };
    check_field_section(&fs, "CONNECT field section")?;
    let got: BTreeMap<String, String> = fs.fields.iter().map(|f| (f.name.clone(), f.value.clone())).collect();
    if got.len() != fs.fields.len() {
        return bad("C16/duplicate-field", "a field name appears twice in the field section".into());
    }
    if plan.server_under_test {
        let want_status = match plan.decision {
            c02::Decision::Accept | c02::Decision::AcceptWithHeaders(_) => "200",
            c02::Decision::Forbidden => "403",
            c02::Decision::NotFound => "404",
            c02::Decision::TooManyRequests => "429",
        };
        if got.get(":status").map(|s| s.as_str()) != Some(want_status) {
            return bad("C16/response-status", format!(":status {:?}, the application decided {want_status}", got.get(":status")));
        }
        let mut want: BTreeMap<String, String> = BTreeMap::new();
        want.insert(":status".into(), want_status.into());
        if let c02::Decision::AcceptWithHeaders(extra) = &plan.decision {
            for (k, v) in extra {
                want.insert(k.clone(), v.clone());
            }
        }
        if got != want {
            return bad("C16/response-fields", format!("response fields {got:?}, expected {want:?}"));
        }
    } else {
        let mut path = plan.path.clone();
        if let Some(q) = &plan.query {
            path.push('?');
            path.push_str(q);
        }
        let mut want: BTreeMap<String, String> = plan.headers.iter().cloned().collect();
        for (k, v) in [(":method", "CONNECT"), (":scheme", "https"), (":protocol", "webtransport")] {
            want.insert(k.into(), v.into());
        }
        want.insert(":authority".into(), rp::RAW_SERVER_ADDR.to_string());
        want.insert(":path".into(), path);
        if got != want {
            let diff: Vec<String> = want.iter().filter(|(k, v)| got.get(*k) != Some(v)).map(|(k, v)| format!("{k}: want {v:?} got {:?}", got.get(k))).collect();
            return bad("C16/request-fields", format!("request fields differ: {}; extra {:?}", diff.join("; "), got.keys().filter(|k| !want.contains_key(*k)).collect::<Vec<_>>()));
        }
    }
    if !w.established {
        return Ok(());
    }
    // ---- WebTransport streams and datagrams opened by the application -----------------------
    let qid = rc::varint(w.session_id / 4);
    for (op, payload) in &w.expected_payloads {
        match op {
            AppOp::OpenUni { .. } => {
                if !wt_uni.iter().any(|b| b == payload) {
                    return bad("C16/wt-uni-payload", format!("uni stream with {}-byte payload not found after a 0x54 + session-id header; streams carry {:?} bytes", payload.len(), wt_uni.iter().map(|b| b.len()).collect::<Vec<_>>()));
                }
            }
            AppOp::OpenBi { .. } => {
                let mut want = rc::varint(rc::FRAME_WT_STREAM);
                want.extend_from_slice(&rc::varint(w.session_id));
                want.extend_from_slice(payload);
                if !w.rec.bidi.values().any(|s| s.bytes == want) {
                    return bad(
                        "C16/wt-bidi-preamble",
                        format!("no bidi stream carrying exactly 0x41 + session id {} + the {}-byte payload; streams start with {:02x?}", w.session_id, payload.len(), w.rec.bidi.values().map(|s| s.bytes[..s.bytes.len().min(6)].to_vec()).collect::<Vec<_>>()),
                    );
                }
            }
            AppOp::Datagram { .. } => {
                let mut want = qid.clone();
                want.extend_from_slice(payload);
                if !w.rec.datagrams.contains(&want) {
                    return bad(
                        "C16/datagram-format",
                        format!("no datagram equal to quarter-stream-id {:02x?} + the {}-byte payload; datagrams start with {:02x?}", qid, payload.len(), w.rec.datagrams.iter().map(|d| d[..d.len().min(6)].to_vec()).collect::<Vec<_>>()),
                    );
                }
            }
        }
    }
    for d in &w.rec.datagrams {
        if !d.starts_with(&qid) {
            return bad("C16/datagram-format", format!("a datagram does not start with the session's quarter stream id {:02x?}: {:02x?}", qid, &d[..d.len().min(8)]));
        }
    }
    Ok(())
}

async fn run_ops(conn: &wtransport::Connection, ops: &[AppOp]) -> Vec<(AppOp, Vec<u8>)> {
    let mut done = Vec::new();
    let mut keep: Vec<Box<dyn std::any::Any + Send>> = Vec::new();
    for op in ops {
        match op {
            AppOp::OpenUni { len, key } => {
                let p = pattern(*key, *len);
                if let Ok(o) = conn.open_uni().await {
                    if let Ok(mut s) = o.await {
                        if s.write_all(&p).await.is_ok() && s.finish().await.is_ok() {
                            done.push((op.clone(), p));
                        }
                        keep.push(Box::new(s));
                    }
                }
            }
            AppOp::OpenBi { len, key } => {
                let p = pattern(*key, *len);
                if let Ok(o) = conn.open_bi().await {
                    if let Ok((mut s, r)) = o.await {
                        if s.write_all(&p).await.is_ok() && s.finish().await.is_ok() {
                            done.push((op.clone(), p));
                        }
                        keep.push(Box::new((s, r)));
                    }
                }
            }
            AppOp::Datagram { len, key } => {
                let p = pattern(*key, *len);
                if conn.send_datagram(&p).is_ok() {
                    done.push((op.clone(), p));
                }
                tokio::time::sleep(Duration::from_millis(5)).await;
            }
        }
    }
    tokio::time::sleep(Duration::from_millis(300)).await;
    drop(keep);
    done
}

async fn read_connect_bytes(recv: &mut quinn::RecvStream) -> Vec<u8> {
    let mut buf = Vec::new();
    let _ = tokio::time::timeout(Duration::from_secs(30), rp::read_frames_until(recv, &mut buf, |f| f.iter().any(|x| x.ty == rc::FRAME_HEADERS))).await;
    buf
}

pub fn execute(plan: &Plan, trace: bool) -> Exec {
    let mut ex = Exec::new();
    let plan = Arc::new(plan.clone());
    let p2 = plan.clone();
    let netslot: Arc<Mutex<Option<SimNet>>> = Arc::new(Mutex::new(None));
    let ns2 = netslot.clone();
    let out = simrt::run(&plan.rt, plan.seed, Duration::from_secs(600), move || async move {
        let plan = p2;
        let net = SimNet::new(plan.net.clone(), trace);
        *ns2.lock().unwrap() = Some(net.clone());
        let mut r = Rng::new(plan.seed, "c16-endpoints");
        let mut k = EpKnobs::default();
        k.max_bi = 400;
        let raw_transport = || {
            let mut t = sut::raw_transport();
            if plan.raw_stream_window > 0 {
                t.stream_receive_window(quinn::VarInt::from_u64(plan.raw_stream_window).unwrap());
            }
            if plan.raw_no_datagrams {
                t.datagram_receive_buffer_size(None);
            }
            t
        };
        if plan.server_under_test {
            let s = sut::sut_server(&net, &k, &mut r);
            let (rep, _rs) = rp::raw_client_endpoint(&net, rp::RAW_CLIENT_ADDR.parse().unwrap(), raw_transport(), r.seed32(), b"h3");
            let sep = s.ep;
            let decision = plan.decision.clone();
            let ops = plan.ops.clone();
            let server = tokio::spawn(async move {
                let req = sep.accept().await.await.map_err(|e| format!("incoming: {e:?}"))?;
                let conn = match decision {
                    c02::Decision::Accept => Some(req.accept().await.map_err(|e| format!("{e:?}"))?),
                    c02::Decision::AcceptWithHeaders(h) => Some(req.accept_with_headers(h).await.map_err(|e| format!("{e:?}"))?),
                    c02::Decision::Forbidden => {
                        req.forbidden().await;
                        None
                    }
                    c02::Decision::NotFound => {
                        req.not_found().await;
                        None
                    }
                    c02::Decision::TooManyRequests => {
                        req.too_many_requests().await;
                        None
                    }
                };
                let done = match &conn {
                    Some(c) => run_ops(c, &ops).await,
                    None => Vec::new(),
                };
                Ok::<_, String>((done, conn, sep))
            });
            let conn = rep.connect(s.addr, "localhost").map_err(|e| format!("{e:?}"))?.await.map_err(|e| format!("raw handshake: {e:?}"))?;
            let rec = rp::start_recorder(&conn, true);
            for _ in 0..plan.burn {
                let (mut s, _r) = conn.open_bi().await.map_err(|e| format!("burn: {e:?}"))?;
                let _ = s.reset(0u32.into());
            }
            let _control = rp::open_control(&conn, &rc::default_peer_settings()).await?;
            // two requests the endpoint must refuse, each on its own stream, with registered codes
            let mut refusals = None;
            if plan.burn == 0 && plan.seed % 3 == 0 {
                let mut codes = Vec::new();
                for fields in [
                    vec![(":method".to_string(), "GET".to_string()), (":scheme".into(), "https".into()), (":authority".into(), "10.0.0.1:4433".into()), (":path".into(), "/".into())],
                    rc::connect_request_fields("10.0.0.1:4433", "/c16").into_iter().filter(|(n, _)| n != ":protocol").collect(),
                ] {
                    let (mut s, _r) = conn.open_bi().await.map_err(|e| format!("{e:?}"))?;
                    rp::write_all(&mut s, &rc::headers_frame(&fields, rc::EncStyle::PlainLiteral)).await?;
                    let code = match tokio::time::timeout(Duration::from_secs(10), s.stopped()).await {
                        Ok(Ok(Some(c))) => Some(c.into_inner()),
                        _ => None,
                    };
                    codes.push(code);
                }
                refusals = Some((codes[0], codes[1]));
            }
            let (mut rs, mut rr) = conn.open_bi().await.map_err(|e| format!("{e:?}"))?;
            let session_id = rp::sid(rs.id());
            rp::write_all(&mut rs, &rc::headers_frame(&rc::connect_request_fields("10.0.0.1:4433", "/c16"), rc::EncStyle::PlainLiteral)).await?;
            let connect_bytes = read_connect_bytes(&mut rr).await;
            let (done, sconn, _sep) = server.await.map_err(|e| format!("{e:?}"))??;
            tokio::time::sleep(Duration::from_millis(200)).await;
            let recs = std::mem::take(&mut *rec.0.lock().unwrap());
            let established = sconn.is_some();
            let close_after_end = if established { end_session(plan.end_style, plan.end_code, &mut rs, &conn).await } else { None };
            drop(rep);
            Ok::<_, String>(Wire { rec: recs, connect_bytes, session_id, expected_payloads: done, established, close_after_end, refusals })
        } else {
            let (rep, _rs) = rp::raw_server_endpoint(&net, rp::RAW_SERVER_ADDR.parse().unwrap(), raw_transport(), r.seed32());
            let c = sut::sut_client(&net, &k, &mut r);
            let cep = c.ep;
            let mut url = format!("https://{}{}", rp::RAW_SERVER_ADDR, plan.path);
            if let Some(q) = &plan.query {
                url.push('?');
                url.push_str(q);
            }
            let mut opts = ConnectOptions::builder(url);
            for (k, v) in &plan.headers {
                opts = opts.add_header(k, v);
            }
            let opts = opts.build();
            let ops = plan.ops.clone();
            let client = tokio::spawn(async move {
                let conn = cep.connect(opts).await.map_err(|e| format!("connect: {e:?}"))?;
                let done = run_ops(&conn, &ops).await;
                Ok::<_, String>((done, conn, cep))
            });
            let inc = rep.accept().await.ok_or("raw endpoint closed")?;
            let conn = inc.await.map_err(|e| format!("raw accept: {e:?}"))?;
            let rec = rp::start_recorder(&conn, false);
            let _control = rp::open_control(&conn, &rc::default_peer_settings()).await?;
            let (mut rs, mut rr) = conn.accept_bi().await.map_err(|e| format!("raw accept_bi: {e:?}"))?;
            let session_id = rp::sid(rs.id());
            let connect_bytes = read_connect_bytes(&mut rr).await;
            rp::write_all(&mut rs, &rc::headers_frame(&rp::status_fields("200"), rc::EncStyle::PlainLiteral)).await?;
            // further bidirectional streams are the application's
            let rec2 = rec.clone();
            let conn2 = conn.clone();
            tokio::spawn(async move {
                while let Ok((send, mut recv)) = conn2.accept_bi().await {
                    let id = rp::sid(recv.id());
                    rec2.0.lock().unwrap().bidi.entry(id).or_default();
                    let rec3 = rec2.clone();
                    tokio::spawn(async move {
                        let _keep = send;
                        let mut buf = vec![0u8; 4096];
                        loop {
                            match recv.read(&mut buf).await {
                                Ok(Some(n)) => rec3.0.lock().unwrap().bidi.get_mut(&id).unwrap().bytes.extend_from_slice(&buf[..n]),
                                _ => return,
                            }
                        }
                    });
                }
            });
            let (done, _cconn, _cep) = client.await.map_err(|e| format!("{e:?}"))??;
            tokio::time::sleep(Duration::from_millis(200)).await;
            let recs = std::mem::take(&mut *rec.0.lock().unwrap());
            let close_after_end = end_session(plan.end_style, plan.end_code, &mut rs, &conn).await;
            drop(rep);
            Ok::<_, String>(Wire { rec: recs, connect_bytes, session_id, expected_payloads: done, established: true, close_after_end, refusals: None })
        }
    });
    sut::finish_exec(&mut ex, &netslot, trace);
    if !out.panics.is_empty() {
        ex.violation("C16/panic", out.panics.join(" | "));
        return ex;
    }
    match out.value {
        None => ex.violation("C16/run-did-not-finish", "exceeded 600 s simulated".into()),
        Some(Err(e)) => ex.violation("C16/setup", e),
        Some(Ok(w)) => {
            ex.nontrivial = true;
            ex.probe("uni_streams_decoded", w.rec.uni.len() as u64);
            ex.fault("tiny_peer_stream_window_runs", (plan.raw_stream_window > 0) as u64);
            ex.fault("peer_without_quic_datagrams_runs", plan.raw_no_datagrams as u64);
            ex.probe("bidi_streams_decoded", w.rec.bidi.len() as u64);
            ex.probe("datagrams_decoded", w.rec.datagrams.len() as u64);
            ex.probe("session_id_varint_bytes", rc::varint_len(w.session_id) as u64);
            if let Err((c, d)) = check_wire(&plan, &w) {
                ex.violation(&c, d);
            }
        }
    }
    let _ = harness::hex(&[]);
    ex
}

pub struct C16Raw;

impl TypedScenario for C16Raw {
    type Plan = Plan;
    fn name(&self) -> &'static str {
        "raw-wire-decoding"
    }
    fn budget(&self, tier: Tier) -> usize {
        match tier {
            Tier::Quick => 10_000,
            Tier::Thorough => 1_500_000,
        }
    }
    fn generate(&self, seed: u64, index: usize, tier: Tier) -> Plan {
        gen_plan(seed, index, tier)
    }
    fn execute(&self, plan: &Plan, trace: bool) -> Exec {
        execute(plan, trace)
    }
    fn shrink(&self, plan: &Plan) -> Vec<Plan> {
        let v = serde_json::to_value(plan).unwrap();
        let mut c = shrink_array(&v, "/ops", 0);
        c.extend(shrink_array(&v, "/headers", 0));
        c.extend(shrink_num(&v, "/burn", 0));
        for (k, val) in [("/path", serde_json::json!("/")), ("/query", serde_json::Value::Null), ("/decision", serde_json::json!("Accept"))] {
            if let Some(x) = set_ptr(&v, k, val) {
                c.push(x);
            }
        }
        c.into_iter().filter_map(|v| serde_json::from_value(v).ok()).collect()
    }
}

pub fn def() -> PropertyDef {
    PropertyDef {
        id: "C16",
        scenarios: vec![Box::new(Typed(C16Raw))],
        rule: "Each run: the endpoint under test (server on even indexes, client on odd) talks to the scripted raw peer, which records every unidirectional stream, every bidirectional stream the endpoint opens, its half of the CONNECT stream and every datagram, and decodes them with the independent reference codec. Client under test: URL path / query / 0-8 additional headers from C02's generator. Server under test: every response variant (accept, accept_with_headers, 403, 404, 429) and session ids needing 1-, 2- (quick) and 4-byte (thorough) varints, obtained by burning stream ids. The application opens 0-6 uni / bidi streams with payloads of 0..1100 B and sends datagrams; in a fifth of the runs the raw peer does not offer QUIC datagrams at all (the SETTINGS the endpoint sends must be the same). Oracle: exactly one control stream, never closed, whose first frame is one SETTINGS (shortest-form varints, no reserved or duplicated ids, ENABLE_CONNECT_PROTOCOL = H3_DATAGRAM = ENABLE_WEBTRANSPORT = 1, QPACK table capacity and blocked streams 0) followed by nothing but GREASE; every other uni stream is 0x54 + the session id in shortest form + exactly the payload; every application bidi stream is 0x41 + session id + payload; every datagram is the shortest-form quarter stream id + payload; the CONNECT field section has Required Insert Count 0 / Base 0, only static or literal representations, valid Huffman, pseudo-headers first and lower-case names, and equals exactly the expected request (five pseudo-headers + additional fields) or response (:status of the decision + extras). Error codes on the wire are compared with registry constants under C12; here, in 40% of the runs the raw peer finally ends the session (close capsule with session codes such as 0x10a or 0xffffffff, or clean FIN) and the endpoint's CONNECTION_CLOSE must carry H3_NO_ERROR; in a third of the server runs two unacceptable requests (a GET, a CONNECT without :protocol) precede the real one and must be refused with exactly H3_REQUEST_REJECTED (0x10b) and H3_MESSAGE_ERROR (0x10e). Every run is non-trivial; distinct = distinct plan hashes.",
        assumptions: vec![
            "the reference codec is validated against RFC 9000 / 7541 / 9204 worked examples at start-up; its Huffman code table (public data of RFC 7541 Appendix B) was extracted from the httlib-huffman crate's data file and checked to be a complete prefix code",
            "8-byte session ids are out of reach in situ; current-thread runtime; fault-free network",
        ],
        real_components: vec!["wtransport (endpoint under test)", "wtransport-proto", "quinn", "quinn-proto", "rustls", "ring", "url", "tokio scheduler + timer wheel (paused clock)"],
        stub_components: vec!["UDP sockets (SimNet)", "OS clock", "the peer: raw quinn endpoint + independent reference codec"],
    }
}
