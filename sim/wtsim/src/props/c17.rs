//! C17 — foreign-session traffic is never delivered (driver half; the identifier algebra over
//! all 2^62 values is pure arithmetic and not a simulation target).

use crate::core::*;
use crate::harness;
use crate::rawscript::*;
use crate::refcodec as rc;
use crate::rng::Rng;
use crate::sut;
use serde::{Deserialize, Serialize};

#[derive(Serialize, Deserialize, Clone, Debug, PartialEq)]
pub enum Item {
    /// WebTransport stream for the live session with a tagged payload
    OwnUni { tag: u32 },
    OwnBi { tag: u32 },
    OwnDgram { tag: u32 },
    /// same, naming another (well-formed, client-initiated bidirectional) session id
    ForeignUni { sid: u64, tag: u32 },
    ForeignBi { sid: u64, tag: u32 },
    ForeignDgram { sid: u64, tag: u32 },
    Gap,
}

#[derive(Serialize, Deserialize, Clone, Debug)]
pub struct Plan {
    pub base: Script,
    pub items: Vec<Item>,
    pub close_code: u32,
    /// server under test: datagrams naming these (foreign) sessions are sent right behind the
    /// CONNECT request, while the application has not accepted the session yet
    #[serde(default)]
    pub early_foreign: Vec<u64>,
}

/// The live session's id: 4 x the number of streams the raw client burnt before its CONNECT.
fn own_sid(base: &Script) -> u64 {
    if base.server_under_test {
        4 * base.burn
    } else {
        0
    }
}

fn foreign_sid(rng: &mut Rng, own: u64) -> u64 {
    // ids of client-initiated bidirectional streams other than the live session (0)
    match rng.below(7) {
        // equal to the live session id (0) modulo 2^8, 2^16 or 2^32: a narrowing conversion of
        // the session id or of the quarter stream id would alias it onto the live session
        6 => {
            let shift = *rng.pick(&[8u32, 16, 32, 32, 32]);
            let k = match rng.below(3) {
                0 => 1,
                1 => 3,
                _ => rng.range(1, (1u64 << (62 - shift)) - 1),
            };
            own + (k << shift).min(rc::VARINT_MAX - 3 - own) / 4 * 4
        }
        0 => 4,
        1 => 8,
        2 => 4 * rng.range(1, 60),
        3 => 4 * rng.range(64, 16000),
        4 => 4 * rng.range(1 << 14, 1 << 28),
        _ => 4 * rng.range(1 << 30, (1 << 60) - 1),
    }
}

pub fn gen_plan(seed: u64, index: usize, _tier: Tier) -> Plan {
    let mut rng = Rng::new(seed, "c17");
    let server_under_test = index % 2 == 0;
    let mut base = base_script(seed, server_under_test);
    base.net.lat_min_us = *rng.pick(&[200u64, 1_000, 5_000]);
    // a third of the runs: the application is busy between its calls, so streams and datagrams
    // (own and foreign) are already queued when it asks for the next one
    base.app_pace_ms = if rng.chance_pm(330) { *rng.pick(&[20u64, 150]) } else { 0 };
    // a third of the server runs: the live session is not session 0 (then 0 is a foreign id too)
    base.burn = if server_under_test && rng.chance_pm(330) { *rng.pick(&[1u64, 2, 16, 64, 300]) } else { 0 };
    base.k.max_bi = 400;
    let own0 = own_sid(&base);
    let n = rng.usize(2, 10);
    let mut items = Vec::new();
    let mut tag = 0u32;
    for _ in 0..n {
        tag += 1;
        let it = match rng.below(9) {
            0 => Item::OwnUni { tag },
            1 => Item::OwnBi { tag },
            2 => Item::OwnDgram { tag },
            3 | 4 => Item::ForeignUni { sid: foreign_sid(&mut rng, own0), tag },
            5 | 6 => Item::ForeignBi { sid: foreign_sid(&mut rng, own0), tag },
            7 => Item::ForeignDgram { sid: foreign_sid(&mut rng, own0), tag },
            _ => Item::Gap,
        };
        items.push(it);
    }
    let own = own_sid(&base);
    for it in items.iter_mut() {
        if let Item::ForeignUni { sid, .. } | Item::ForeignBi { sid, .. } | Item::ForeignDgram { sid, .. } = it {
            if own != 0 && rng.chance_pm(250) {
                *sid = 0;
            }
            if *sid == own {
                *sid = own + 4;
            }
        }
    }
    let mut early_foreign = Vec::new();
    if server_under_test && rng.chance_pm(300) {
        base.accept_delay_ms = *rng.pick(&[100u64, 600]);
        for _ in 0..rng.usize(1, 3) {
            let mut sid = foreign_sid(&mut rng, own);
            if sid == own {
                sid = own + 4;
            }
            early_foreign.push(sid);
        }
    }
    Plan { base, items, close_code: rng.next_u64() as u32, early_foreign }
}

fn payload(tag: u32, own: bool) -> Vec<u8> {
    format!("{}-payload-{tag:08}", if own { "own" } else { "FOREIGN" }).into_bytes()
}

pub fn compile(p: &Plan) -> Script {
    let mut acts = valid_prologue(p.base.server_under_test);
    if !p.early_foreign.is_empty() {
        // in front of the final WaitSession of the prologue
        let wait = acts.pop();
        for (j, sid) in p.early_foreign.iter().enumerate() {
            let mut d = rc::varint(sid / 4);
            d.extend_from_slice(&payload(9000 + j as u32, false));
            acts.push(Act::Datagram { hex: hex(&d) });
        }
        acts.extend(wait);
    }
    acts.push(Act::Gap);
    for (i, it) in p.items.iter().enumerate() {
        let slot = 100 + i;
        match it {
            Item::OwnUni { tag } | Item::ForeignUni { tag, .. } => {
                let (sid, own) = if let Item::ForeignUni { sid, .. } = it { (*sid, false) } else { (own_sid(&p.base), true) };
                let mut b = rc::wt_uni_header(sid);
                b.extend_from_slice(&payload(*tag, own));
                acts.push(Act::OpenUni { slot });
                acts.push(Act::Write { slot, hex: hex(&b) });
                // a foreign stream is left open: STOP_SENDING is only observable on a stream
                // that has not been completely acknowledged yet
                if own {
                    acts.push(Act::Fin { slot });
                }
            }
            Item::OwnBi { tag } | Item::ForeignBi { tag, .. } => {
                let (sid, own) = if let Item::ForeignBi { sid, .. } = it { (*sid, false) } else { (own_sid(&p.base), true) };
                let mut b = rc::wt_bidi_signal(sid);
                b.extend_from_slice(&payload(*tag, own));
                acts.push(Act::OpenBi { slot });
                acts.push(Act::Write { slot, hex: hex(&b) });
                if own {
                    acts.push(Act::Fin { slot });
                }
            }
            Item::OwnDgram { tag } | Item::ForeignDgram { tag, .. } => {
                let (sid, own) = if let Item::ForeignDgram { sid, .. } = it { (*sid, false) } else { (own_sid(&p.base), true) };
                // own datagrams also in non-shortest quarter-id encodings
                let mut d = Vec::new();
                let shortest = rc::varint_len(sid / 4);
                rc::put_varint_len(sid / 4, [shortest, 2, 4, 8][(*tag as usize) % 4].max(shortest), &mut d);
                d.extend_from_slice(&payload(*tag, own));
                acts.push(Act::Datagram { hex: hex(&d) });
                // paced: the hand-off queue for datagrams has capacity 1
                acts.push(Act::Sleep { us: 30_000 });
            }
            Item::Gap => acts.push(Act::Gap),
        }
    }
    // the other direction: what the endpoint itself sends names the live session, whatever its id
    acts.push(Act::AppSendDatagram { hex: hex(b"outgoing-datagram") });
    acts.push(Act::AppOpenUni { hex: hex(b"outgoing-uni-stream") });
    acts.push(Act::Gap);
    acts.push(Act::Sleep { us: 300_000 + (p.items.len() as u64 + 3) * p.base.app_pace_ms * 1_000 });
    acts.push(Act::CollectStops);
    acts.push(close_capsule_act(p.close_code, b"c17"));
    let mut s = p.base.clone();
    s.acts = acts;
    s.settle_ms = 500;
    s
}

pub fn execute(plan: &Plan, trace: bool) -> Exec {
    let script = rc::with_stretch(plan.base.seed, plan.base.stretch_pm, || compile(plan));
    let (mut ex, obs) = run_script(&script, trace, "C17");
    let Some(obs) = obs else { return ex };
    let foreign = plan.items.iter().filter(|i| matches!(i, Item::ForeignUni { .. } | Item::ForeignBi { .. } | Item::ForeignDgram { .. })).count();
    ex.nontrivial = foreign > 0;
    ex.probe("foreign_items", foreign as u64);
    let Some(app) = &obs.app else {
        ex.violation("C17/session-not-established", format!("{:?}", obs.sut));
        return ex;
    };
    // 1. nothing foreign reaches the application
    let delivered: Vec<&Vec<u8>> = app.uni.values().chain(app.bi.values()).chain(app.datagrams.iter()).collect();
    for d in &delivered {
        if d.windows(7).any(|w| w == b"FOREIGN") {
            ex.violation("C17/foreign-traffic-delivered", format!("the application received {:?} which names another session; items {:?}", String::from_utf8_lossy(d), plan.items));
            return ex;
        }
    }
    // 2. the live session's own traffic is complete (streams: exactly; datagrams: paced on a loss-free network)
    for it in &plan.items {
        match it {
            Item::OwnUni { tag } => {
                if !app.uni.values().any(|b| *b == payload(*tag, true)) {
                    ex.violation("C17/own-traffic-disturbed", format!("own uni stream {tag} not delivered; items {:?}; raw peer {:?}", plan.items, obs.raw_close));
                    return ex;
                }
            }
            Item::OwnBi { tag } => {
                if !app.bi.values().any(|b| *b == payload(*tag, true)) {
                    ex.violation("C17/own-traffic-disturbed", format!("own bidi stream {tag} not delivered; items {:?}; raw peer {:?}", plan.items, obs.raw_close));
                    return ex;
                }
            }
            Item::OwnDgram { tag } => {
                if !app.datagrams.iter().any(|b| *b == payload(*tag, true)) {
                    ex.violation("C17/own-traffic-disturbed", format!("own datagram {tag} not delivered; items {:?}", plan.items));
                    return ex;
                }
            }
            _ => {}
        }
    }
    let own_streams = plan.items.iter().filter(|i| matches!(i, Item::OwnUni { .. } | Item::OwnBi { .. })).count();
    if app.uni.len() + app.bi.len() + app.uni_err.len() + app.bi_err.len() != own_streams {
        ex.violation("C17/invented-stream", format!("application was handed {} streams, the session has {own_streams}", app.uni.len() + app.bi.len() + app.uni_err.len() + app.bi_err.len()));
        return ex;
    }
    // 3. every foreign stream was refused with WEBTRANSPORT_BUFFERED_STREAM_REJECTED
    for (i, it) in plan.items.iter().enumerate() {
        if let Item::ForeignUni { sid, .. } | Item::ForeignBi { sid, .. } = it {
            let slot = obs.slots.get(&(100 + i));
            match slot.and_then(|s| s.stopped) {
                Some(c) if c == rc::WT_BUFFERED_STREAM_REJECTED => {}
                other => {
                    ex.violation(
                        "C17/foreign-stream-not-refused",
                        format!("stream naming session {sid} (item {i}): STOP_SENDING code seen by the raw peer: {other:x?}, expected {:#x}; raw peer close {:?}", rc::WT_BUFFERED_STREAM_REJECTED, obs.raw_close),
                    );
                    return ex;
                }
            }
        }
    }
    // 3b. what the endpoint sent carries the live session's identifiers: datagram = quarter stream
    // id + payload, uni stream = 0x54 + session id + payload
    let own = own_sid(&plan.base);
    let mut want_d = rc::varint(own / 4);
    want_d.extend_from_slice(b"outgoing-datagram");
    if !obs.rec.datagrams.iter().any(|d| *d == want_d) {
        ex.violation(
            "C17/outgoing-datagram-session",
            format!("live session {own}: the endpoint's datagram should be quarter stream id {} + payload; the raw peer received {:?}", own / 4, obs.rec.datagrams.iter().map(|d| harness::hex(&d[..d.len().min(12)])).collect::<Vec<_>>()),
        );
        return ex;
    }
    let mut want_u = rc::wt_uni_header(own);
    want_u.extend_from_slice(b"outgoing-uni-stream");
    if !obs.rec.uni.values().any(|s| s.bytes == want_u) {
        ex.violation(
            "C17/outgoing-stream-session",
            format!("live session {own}: the endpoint's uni stream should start with 0x54 + session id {own}; the raw peer recorded {:?}", obs.rec.uni.values().map(|s| harness::hex(&s.bytes[..s.bytes.len().min(12)])).collect::<Vec<_>>()),
        );
        return ex;
    }
    // 3c. the stream ids the application is told are QUIC's: every accepted stream of the live
    // session is reported under the id the raw peer opened it with, and the stream the application
    // opened under the id the raw peer received it with
    for (i, it) in plan.items.iter().enumerate() {
        let (tag, bidi) = match it {
            Item::OwnUni { tag } => (*tag, false),
            Item::OwnBi { tag } => (*tag, true),
            _ => continue,
        };
        let Some(slot) = obs.slots.get(&(100 + i)) else { continue };
        let got = if bidi { app.bi.get(&slot.id) } else { app.uni.get(&slot.id) };
        if got != Some(&payload(tag, true)) {
            let reported: Vec<u64> = if bidi { app.bi.iter().filter(|(_, b)| **b == payload(tag, true)).map(|(k, _)| *k).collect() } else { app.uni.iter().filter(|(_, b)| **b == payload(tag, true)).map(|(k, _)| *k).collect() };
            ex.violation(
                "C17/stream-id-misreported",
                format!("the peer opened {} stream {} (QUIC id, low bits {:02b}); the handle the application got for it reports id {:?}", if bidi { "bidi" } else { "uni" }, slot.id, slot.id & 3, reported),
            );
            return ex;
        }
    }
    for (id, bytes) in &app.opened_uni {
        if bytes.as_slice() == b"outgoing-uni-stream" {
            let quic: Vec<u64> = obs.rec.uni.iter().filter(|(_, s)| s.bytes == want_u).map(|(k, _)| *k).collect();
            if !quic.contains(id) {
                ex.violation("C17/stream-id-misreported", format!("the application's own uni stream reports id {id}; on the wire it is QUIC stream {quic:?}"));
                return ex;
            }
        }
    }
    // 4. the live session survived until its own close capsule
    let closed_ok = app.ended.len() >= 3 && app.ended.iter().all(|(_, e)| matches!(sut::app_closed(e), Some((c, _)) if c == plan.close_code as u64));
    if !closed_ok || !matches!(&obs.raw_close, RawClose::Application { code, .. } if *code == rc::H3_NO_ERROR) {
        ex.violation("C17/live-session-disturbed", format!("close reports {:?}; raw peer saw {:?}; items {:?}", app.ended, obs.raw_close, plan.items));
    }
    let _ = harness::hex(&[]);
    ex
}

pub struct C17Raw;

impl TypedScenario for C17Raw {
    type Plan = Plan;
    fn name(&self) -> &'static str {
        "raw-foreign-sessions"
    }
    fn budget(&self, tier: Tier) -> usize {
        match tier {
            Tier::Quick => 12_000,
            Tier::Thorough => 1_500_000,
        }
    }
    fn generate(&self, seed: u64, index: usize, tier: Tier) -> Plan {
        gen_plan(seed, index, tier)
    }
    fn execute(&self, plan: &Plan, trace: bool) -> Exec {
        execute(plan, trace)
    }
    fn shrink(&self, plan: &Plan) -> Vec<Plan> {
        let v = serde_json::to_value(plan).unwrap();
        shrink_array(&v, "/items", 1).into_iter().filter_map(|v| serde_json::from_value(v).ok()).collect()
    }
}

pub fn def() -> PropertyDef {
    PropertyDef {
        id: "C17",
        scenarios: vec![Box::new(Typed(C17Raw))],
        rule: "Each run: a live session (id 0; against the server in a third of the runs 4, 8, 64, 256 or 1200, and then 0 is among the foreign ids) between the endpoint under test (server on even indexes, client on odd) and the scripted raw peer; 2-10 items interleaved in generated order: own uni / bidi streams and datagrams with tagged payloads, and uni streams, bidi streams and datagrams naming another well-formed session id (4, 8, and random ids needing 1-, 2-, 4- and 8-byte varints up to 4*(2^60-1)); then the session's close capsule. Finally the application itself sends a datagram and opens a uni stream, which must name the live session on the wire. Oracle: the application never receives a foreign payload; all own streams arrive byte-exact and nothing else is handed over; paced own datagrams arrive; every foreign stream is answered with STOP_SENDING(WEBTRANSPORT_BUFFERED_STREAM_REJECTED = 0x3994bd84); the live session survives and ends with its capsule (H3_NO_ERROR on the wire); the id reported by the handle of every accepted stream is the QUIC id the raw peer opened it under, and the id of the application's own uni stream is the QUIC id the raw peer received it under. Ids of the other three stream classes are H3_ID_ERROR and are exercised under C12. Non-trivial = at least one foreign item; distinct = distinct plan hashes. Not a simulation target: the identifier algebra (SessionId/QStreamId/StreamId conversions over all 2^62 values) is pure arithmetic.",
        assumptions: vec![
            "only session ids the wire format can carry are used; the algebra half of the property is pure and not claimed",
            "raw peer + reference codec are harness code; current-thread runtime; fault-free network",
        ],
        real_components: vec!["wtransport (endpoint under test)", "wtransport-proto", "quinn", "quinn-proto", "rustls", "ring", "tokio scheduler + timer wheel (paused clock)"],
        stub_components: vec!["UDP sockets (SimNet)", "OS clock", "the peer: scripted raw quinn endpoint + reference codec"],
    }
}
