//! C05 — control-plane interpretation is independent of segmentation and interleaving.
//!
//! RAW, metamorphic: the peer's control-stream bytes (stream type + SETTINGS [+ GREASE]),
//! the CONNECT request / response HEADERS and the session-stream bytes ([GREASE frame]
//! [unknown capsule] close capsule) are written in pieces, with network quiescence and one
//! other connection event between the pieces. The outcome must be what the unsegmented
//! exchange gives: session established, then every pending call reports
//! ApplicationClosed(code, reason) with exactly the capsule's values.

use crate::core::*;
use crate::harness::EpKnobs;
use crate::rawpeer as rp;
use crate::refcodec as rc;
use crate::rng::Rng;
use crate::simnet::{NetCfg, SimNet};
use crate::simrt::{self, RtKnobs};
use crate::sut::{self, App};
use serde::{Deserialize, Serialize};
use std::collections::BTreeMap;
use std::sync::{Arc, Mutex};
use std::time::Duration;
use wtransport::quinn;

#[derive(Serialize, Deserialize, Clone, Copy, Debug, PartialEq)]
pub enum Ev {
    None,
    DgramSession,
    DgramForeign,
    WtUni,
    WtBidi,
    GreaseOnControl,
    GreaseUniStream,
    LocalOpenUni,
    CancelAccepts,
}

const EVS_PRE: [Ev; 6] = [Ev::None, Ev::DgramSession, Ev::DgramForeign, Ev::WtUni, Ev::WtBidi, Ev::GreaseUniStream];
const EVS_SESSION: [Ev; 9] = [
    Ev::None,
    Ev::DgramSession,
    Ev::DgramForeign,
    Ev::WtUni,
    Ev::WtBidi,
    Ev::GreaseOnControl,
    Ev::GreaseUniStream,
    Ev::LocalOpenUni,
    Ev::CancelAccepts,
];

#[derive(Serialize, Deserialize, Clone, Debug)]
pub struct Plan {
    pub seed: u64,
    pub rt: RtKnobs,
    pub net: NetCfg,
    pub k: EpKnobs,
    pub server_under_test: bool,
    /// cut positions (byte offsets, ascending) with the event performed at each cut
    pub control_cuts: Vec<(usize, Ev)>,
    pub request_cuts: Vec<(usize, Ev)>,
    pub session_cuts: Vec<(usize, Ev)>,
    pub grease_on_control: Option<(u64, usize)>,
    /// 0 nothing, 1 GREASE frame, 2 unknown (GREASE-typed) capsule, 3 both — before the close capsule
    pub session_prefix: u8,
    pub close_code: u32,
    pub reason: String,
    pub read_cap: usize,
    pub gap_ms: u64,
    /// events fired straight behind the last byte of the close capsule (no gap): whatever the
    /// driver still does after it has read the capsule must not be lost to them
    #[serde(default)]
    pub trailing_events: Vec<Ev>,
}

fn control_bytes(p: &Plan) -> Vec<u8> {
    let mut b = rc::varint(rc::STREAM_CONTROL);
    b.extend_from_slice(&rc::frame(rc::FRAME_SETTINGS, &rc::settings_payload(&rc::default_peer_settings())));
    if let Some((n, len)) = p.grease_on_control {
        b.extend_from_slice(&rc::frame(rc::grease(n), &vec![0xAB; len]));
    }
    b
}

fn request_bytes(p: &Plan) -> Vec<u8> {
    if p.server_under_test {
        rc::headers_frame(&rc::connect_request_fields("10.0.0.1:4433", "/c05"), rc::EncStyle::PlainLiteral)
    } else {
        rc::headers_frame(&rp::status_fields("200"), rc::EncStyle::PlainLiteral)
    }
}

fn session_bytes(p: &Plan) -> Vec<u8> {
    let mut b = Vec::new();
    if p.session_prefix & 1 != 0 {
        b.extend_from_slice(&rc::frame(rc::grease(3), b"grease-frame"));
    }
    if p.session_prefix & 2 != 0 {
        b.extend_from_slice(&rc::frame(rc::FRAME_DATA, &rc::capsule(rc::grease(5), b"unknown-capsule")));
    }
    b.extend_from_slice(&rc::frame(rc::FRAME_DATA, &rc::close_capsule(p.close_code, p.reason.as_bytes())));
    b
}

fn base_plan(seed: u64, server_under_test: bool) -> Plan {
    let mut rng = Rng::new(seed, "c05");
    let mut net = NetCfg::clean(rng.next_u64());
    net.lat_min_us = 1_000;
    Plan {
        seed,
        rt: RtKnobs::from_rng(&mut rng),
        net,
        k: EpKnobs::default(),
        server_under_test,
        control_cuts: vec![],
        request_cuts: vec![],
        session_cuts: vec![],
        grease_on_control: None,
        session_prefix: 0,
        close_code: 0x0102_0304,
        reason: "bye".into(),
        read_cap: 0,
        gap_ms: 10,
        trailing_events: Vec::new(),
    }
}

/// The exhaustive single-cut sweep: (role, subject, cut position, event).
fn sweep() -> &'static Vec<(bool, u8, usize, Ev)> {
    static S: std::sync::OnceLock<Vec<(bool, u8, usize, Ev)>> = std::sync::OnceLock::new();
    S.get_or_init(|| {
        let mut v = Vec::new();
        for role in [true, false] {
            let p = base_plan(0, role);
            for (subject, len) in [(0u8, control_bytes(&p).len()), (1, request_bytes(&p).len()), (2, session_bytes(&p).len())] {
                let evs: &[Ev] = if subject == 2 { &EVS_SESSION } else { &EVS_PRE };
                for cut in 1..len {
                    for ev in evs {
                        v.push((role, subject, cut, *ev));
                    }
                }
            }
        }
        v
    })
}

pub fn gen_plan(seed: u64, index: usize, _tier: Tier) -> Plan {
    let sw = sweep();
    if index < sw.len() {
        let (role, subject, cut, ev) = sw[index];
        let mut p = base_plan(seed, role);
        match subject {
            0 => p.control_cuts = vec![(cut, ev)],
            1 => p.request_cuts = vec![(cut, ev)],
            _ => p.session_cuts = vec![(cut, ev)],
        }
        return p;
    }
    let mut rng = Rng::new(seed, "c05-sampled");
    let mut p = base_plan(seed, rng.coin());
    p.net.lat_min_us = *rng.pick(&[200u64, 1_000, 5_000]);
    p.gap_ms = *rng.pick(&[1u64, 10, 30, 30, 700, 2_500]);
    if rng.coin() {
        p.grease_on_control = Some((rng.range(0, 1000), rng.usize(0, 40)));
    }
    p.session_prefix = rng.below(4) as u8;
    if rng.chance_pm(350) {
        p.trailing_events = (0..rng.usize(2, 10)).map(|_| rng.pick(&[Ev::DgramSession, Ev::WtUni, Ev::WtBidi, Ev::DgramSession, Ev::GreaseUniStream]).clone()).collect();
    }
    let rc32 = rng.next_u64() as u32;
    p.close_code = *rng.pick(&[0u32, 1, 255, 256, 65535, 65536, u32::MAX, rc32]);
    let rl = *rng.pick(&[0usize, 1, 3, 50, 200]);
    p.reason = (0..rl).map(|i| (b'a' + (i % 26) as u8) as char).collect();
    p.read_cap = if rng.chance_pm(300) { rng.usize(1, 3) } else { 0 };
    let mut cuts = |rng: &mut Rng, len: usize, evs: &[Ev]| -> Vec<(usize, Ev)> {
        let n = match rng.below(4) {
            0 => 0,
            1 => 1,
            2 => 2,
            _ => 3,
        };
        let mut pos: Vec<usize> = (0..n).map(|_| rng.usize(1, len - 1)).collect();
        pos.sort();
        pos.dedup();
        pos.into_iter().map(|c| (c, *rng.pick(evs))).collect()
    };
    p.control_cuts = cuts(&mut rng, control_bytes(&p).len(), &EVS_PRE);
    p.request_cuts = cuts(&mut rng, request_bytes(&p).len(), &EVS_PRE);
    let sl = session_bytes(&p).len();
    p.session_cuts = cuts(&mut rng, sl, &EVS_SESSION);
    if p.control_cuts.is_empty() && p.request_cuts.is_empty() && p.session_cuts.is_empty() {
        p.session_cuts = vec![(rng.usize(1, sl - 1), *rng.pick(&EVS_SESSION))];
    }
    p
}

#[derive(Default)]
struct Expect {
    uni: BTreeMap<u64, Vec<u8>>,
    bi: BTreeMap<u64, Vec<u8>>,
}

struct Raw<'a> {
    net: &'a SimNet,
    conn: quinn::Connection,
    session_id: u64,
    control: Option<quinn::SendStream>,
    gap: Duration,
    tag: u64,
    expect: Expect,
    keep: Vec<Box<dyn std::any::Any + Send>>,
    in_session_phase: bool,
}

impl Raw<'_> {
    async fn gap(&self) {
        self.net.quiesce(self.gap, Duration::from_secs(5)).await;
    }

    async fn event(&mut self, ev: Ev, app: Option<&mut App>) -> Result<(), String> {
        self.tag += 1;
        let tag = format!("ev-{}-payload", self.tag).into_bytes();
        match ev {
            Ev::None => {}
            Ev::DgramSession | Ev::DgramForeign => {
                let sid = if ev == Ev::DgramSession { self.session_id } else { self.session_id + 8 };
                let mut d = rc::varint(sid / 4);
                d.extend_from_slice(&tag);
                let _ = self.conn.send_datagram(d.into());
            }
            Ev::WtUni => {
                let mut s = self.conn.open_uni().await.map_err(|e| format!("raw open_uni: {e:?}"))?;
                let mut b = rc::wt_uni_header(self.session_id);
                b.extend_from_slice(&tag);
                rp::write_all(&mut s, &b).await?;
                let _ = s.finish();
                if self.in_session_phase {
                    self.expect.uni.insert(rp::sid(s.id()), tag);
                }
                self.keep.push(Box::new(s));
            }
            Ev::WtBidi => {
                let (mut s, r) = self.conn.open_bi().await.map_err(|e| format!("raw open_bi: {e:?}"))?;
                let mut b = rc::wt_bidi_signal(self.session_id);
                b.extend_from_slice(&tag);
                rp::write_all(&mut s, &b).await?;
                let _ = s.finish();
                if self.in_session_phase {
                    self.expect.bi.insert(rp::sid(s.id()), tag);
                }
                self.keep.push(Box::new((s, r)));
            }
            Ev::GreaseOnControl => {
                if let Some(c) = self.control.as_mut() {
                    rp::write_all(c, &rc::frame(rc::grease(self.tag), &tag)).await?;
                }
            }
            Ev::GreaseUniStream => {
                let mut s = self.conn.open_uni().await.map_err(|e| format!("raw open_uni: {e:?}"))?;
                let mut b = rc::varint(rc::grease(self.tag + 7));
                b.extend_from_slice(&tag);
                rp::write_all(&mut s, &b).await?;
                let _ = s.finish();
                self.keep.push(Box::new(s));
            }
            Ev::LocalOpenUni => {
                if let Some(app) = app {
                    if let Ok(opening) = app.conn.open_uni().await {
                        if let Ok(mut s) = opening.await {
                            let _ = s.write_all(&tag).await;
                            self.keep.push(Box::new(s));
                        }
                    }
                }
            }
            Ev::CancelAccepts => {
                if let Some(app) = app {
                    app.cancel_and_reissue(7);
                }
            }
        }
        Ok(())
    }

    /// Writes `bytes` on `stream` in the pieces given by `cuts`, with a quiescence gap and
    /// the cut's event between consecutive pieces.
    async fn write_cut(
        &mut self,
        stream: &mut quinn::SendStream,
        bytes: &[u8],
        cuts: &[(usize, Ev)],
        mut app: Option<&mut App>,
        probes: &mut (u64, u64),
    ) -> Result<(), String> {
        let mut off = 0;
        for (cut, ev) in cuts {
            let cut = (*cut).min(bytes.len());
            if cut <= off {
                continue;
            }
            rp::write_all(stream, &bytes[off..cut]).await?;
            off = cut;
            self.gap().await;
            let it0 = wtransport::verif::loop_iters();
            self.event(*ev, app.as_deref_mut()).await?;
            self.gap().await;
            if wtransport::verif::loop_iters() > it0 {
                probes.0 += 1; // the driver looped between the two pieces
            }
            probes.1 += 1;
        }
        if off < bytes.len() {
            rp::write_all(stream, &bytes[off..]).await?;
        }
        Ok(())
    }
}

type Res = Result<(Vec<(String, String)>, (u64, u64), u64), (String, String)>;

pub fn execute(plan: &Plan, trace: bool) -> Exec {
    let mut ex = Exec::new();
    let plan = Arc::new(plan.clone());
    let p2 = plan.clone();
    let netslot: Arc<Mutex<Option<SimNet>>> = Arc::new(Mutex::new(None));
    let ns2 = netslot.clone();
    let out = simrt::run(&plan.rt, plan.seed, Duration::from_secs(600), move || async move {
        let plan = p2;
        let net = SimNet::new(plan.net.clone(), trace);
        *ns2.lock().unwrap() = Some(net.clone());
        wtransport::verif::set_read_cap(plan.read_cap);
        let mut r = Rng::new(plan.seed, "c05-endpoints");
        let mut probes = (0u64, 0u64);
        let gap = Duration::from_millis(plan.gap_ms.max(1)) + Duration::from_micros(plan.net.lat_min_us * 3);
        let fail = |c: &str, d: String| -> Res { Err((c.to_string(), d)) };

        let (sut_conn, mut raw, mut req_send, mut req_recv, _keep): (wtransport::Connection, Raw, quinn::SendStream, quinn::RecvStream, Vec<Box<dyn std::any::Any + Send>>);
        if plan.server_under_test {
            let s = sut::sut_server(&net, &plan.k, &mut r);
            let (rep, _rsock) = rp::raw_client_endpoint(&net, rp::RAW_CLIENT_ADDR.parse().unwrap(), sut::raw_transport(), r.seed32(), b"h3");
            let sep = s.ep;
            let accept = tokio::spawn(async move {
                let req = sep.accept().await.await.map_err(|e| format!("incoming session: {e:?}"))?;
                let authority = req.authority().to_string();
                let path = req.path().to_string();
                let conn = req.accept().await.map_err(|e| format!("accept: {e:?}"))?;
                Ok::<_, String>((conn, authority, path, sep))
            });
            let conn = match rep.connect(s.addr, "localhost").map_err(|e| format!("{e:?}")) {
                Ok(c) => match c.await {
                    Ok(c) => c,
                    Err(e) => return fail("C05/setup", format!("raw handshake: {e:?}")),
                },
                Err(e) => return fail("C05/setup", e),
            };
            let _rec = rp::start_recorder(&conn, false);
            let (rs, rr) = match conn.open_bi().await {
                Ok(x) => x,
                Err(e) => return fail("C05/setup", format!("{e:?}")),
            };
            let mut rw = Raw { net: &net, conn: conn.clone(), session_id: rp::sid(rs.id()), control: None, gap, tag: 0, expect: Expect::default(), keep: vec![], in_session_phase: false };
            // control stream in pieces
            let mut control = match conn.open_uni().await {
                Ok(c) => c,
                Err(e) => return fail("C05/setup", format!("{e:?}")),
            };
            if let Err(e) = rw.write_cut(&mut control, &control_bytes(&plan), &plan.control_cuts, None, &mut probes).await {
                return fail("C05/raw-write-failed-control", e);
            }
            rw.control = Some(control);
            // request in pieces
            let mut rs = rs;
            if let Err(e) = rw.write_cut(&mut rs, &request_bytes(&plan), &plan.request_cuts, None, &mut probes).await {
                return fail("C05/raw-write-failed-request", e);
            }
            let accepted = match tokio::time::timeout(Duration::from_secs(30), accept).await {
                Ok(Ok(Ok(x))) => x,
                Ok(Ok(Err(e))) => return fail("C05/establish-failed", format!("server side: {e}")),
                Ok(Err(e)) => return fail("C05/establish-failed", format!("server task: {e:?}")),
                Err(_) => return fail("C05/establish-failed", "server did not produce a session within 30 s of the complete request".into()),
            };
            if accepted.1 != "10.0.0.1:4433" || accepted.2 != "/c05" {
                return fail("C05/request-altered", format!("authority={:?} path={:?}", accepted.1, accepted.2));
            }
            sut_conn = accepted.0;
            _keep = vec![Box::new(accepted.3), Box::new(rep)];
            raw = rw;
            req_send = rs;
            req_recv = rr;
        } else {
            let (rep, _rsock) = rp::raw_server_endpoint(&net, rp::RAW_SERVER_ADDR.parse().unwrap(), sut::raw_transport(), r.seed32());
            let c = sut::sut_client(&net, &plan.k, &mut r);
            let cep = c.ep;
            let url = format!("https://{}/c05", rp::RAW_SERVER_ADDR);
            let connect = tokio::spawn(async move {
                let r = cep.connect(url).await.map_err(|e| format!("{e:?}"));
                (r, cep)
            });
            let conn = match rep.accept().await {
                Some(inc) => match inc.await {
                    Ok(c) => c,
                    Err(e) => return fail("C05/setup", format!("raw accept: {e:?}")),
                },
                None => return fail("C05/setup", "raw endpoint closed".into()),
            };
            let _rec = rp::start_recorder(&conn, false);
            let mut rw = Raw { net: &net, conn: conn.clone(), session_id: 0, control: None, gap, tag: 0, expect: Expect::default(), keep: vec![], in_session_phase: false };
            let mut control = match conn.open_uni().await {
                Ok(c) => c,
                Err(e) => return fail("C05/setup", format!("{e:?}")),
            };
            if let Err(e) = rw.write_cut(&mut control, &control_bytes(&plan), &plan.control_cuts, None, &mut probes).await {
                return fail("C05/raw-write-failed-control", e);
            }
            rw.control = Some(control);
            let (mut rs, mut rr) = match tokio::time::timeout(Duration::from_secs(30), conn.accept_bi()).await {
                Ok(Ok(x)) => x,
                Ok(Err(e)) => return fail("C05/establish-failed", format!("client closed before sending its request: {e:?}")),
                Err(_) => return fail("C05/establish-failed", "client did not send its request within 30 s of the complete SETTINGS".into()),
            };
            let mut buf = Vec::new();
            match tokio::time::timeout(Duration::from_secs(30), rp::read_frames_until(&mut rr, &mut buf, |f| f.iter().any(|x| x.ty == rc::FRAME_HEADERS))).await {
                Ok(Ok(_)) => {}
                Ok(Err(e)) => return fail("C05/establish-failed", format!("reading the client's request: {e}")),
                Err(_) => return fail("C05/establish-failed", "no request HEADERS from the client within 30 s".into()),
            }
            rw.session_id = rp::sid(rs.id());
            if let Err(e) = rw.write_cut(&mut rs, &request_bytes(&plan), &plan.request_cuts, None, &mut probes).await {
                return fail("C05/raw-write-failed-response", e);
            }
            let (cres, cep) = match tokio::time::timeout(Duration::from_secs(30), connect).await {
                Ok(Ok(x)) => x,
                Ok(Err(e)) => return fail("C05/establish-failed", format!("connect task: {e:?}")),
                Err(_) => return fail("C05/establish-failed", "connect() did not return within 30 s of the complete response".into()),
            };
            sut_conn = match cres {
                Ok(c) => c,
                Err(e) => return fail("C05/establish-failed", format!("connect(): {e}")),
            };
            _keep = vec![Box::new(cep), Box::new(rep)];
            raw = rw;
            req_send = rs;
            req_recv = rr;
        }
        let _ = &mut req_recv;
        net.note("established");

        // ---- established session: session-stream bytes in pieces ------------------------
        let mut app = App::start(sut_conn.clone());
        raw.in_session_phase = true;
        raw.gap().await;
        let sb = session_bytes(&plan);
        if let Err(e) = raw.write_cut(&mut req_send, &sb, &plan.session_cuts, Some(&mut app), &mut probes).await {
            return fail("C05/raw-write-failed-session", e);
        }
        // the session may be gone by now: delivery (or failure) of these late events is not the
        // subject, so they are not added to what must arrive
        let expect_so_far = std::mem::take(&mut raw.expect);
        for ev in plan.trailing_events.iter().cloned() {
            let _ = raw.event(ev, None).await;
        }
        raw.expect = expect_so_far;
        let mut problems: Vec<(String, String)> = Vec::new();
        let ended = app.wait_ended(Duration::from_secs(30)).await;
        let log = app.log.lock().unwrap();
        if !ended {
            problems.push((
                "C05/close-not-reported".into(),
                format!("30 s after the complete close capsule only {:?} had returned (of accept_uni, accept_bi, receive_datagram)", log.ended.iter().map(|e| e.0.clone()).collect::<Vec<_>>()),
            ));
        }
        for (who, e) in &log.ended {
            match sut::app_closed(e) {
                Some((c, rsn)) if c == plan.close_code as u64 && rsn == plan.reason.as_bytes() => {}
                _ => problems.push((
                    "C05/close-misreported".into(),
                    format!("{who} returned {e:?}; the peer's capsule said code {} reason {:?}", plan.close_code, plan.reason),
                )),
            }
        }
        for (id, want) in &raw.expect.uni {
            if log.uni.get(id) != Some(want) {
                problems.push(("C05/stream-lost".into(), format!("uni stream {id} sent between the pieces was not delivered intact: {:?} / {:?}", log.uni.get(id).map(|b| b.len()), log.uni_err.get(id))));
            }
        }
        for (id, want) in &raw.expect.bi {
            if log.bi.get(id) != Some(want) {
                problems.push(("C05/stream-lost".into(), format!("bidi stream {id} sent between the pieces was not delivered intact: {:?} / {:?}", log.bi.get(id).map(|b| b.len()), log.bi_err.get(id))));
            }
        }
        let cancels = log.cancelled_accepts;
        drop(log);
        Ok((problems, probes, cancels))
    });
    sut::finish_exec(&mut ex, &netslot, trace);
    ex.probe("loop_iters", out.loop_iters);
    ex.probe("read_futures_dropped_with_partial_progress", out.torn_reads);
    if !out.panics.is_empty() {
        ex.violation("C05/panic", out.panics.join(" | "));
        return ex;
    }
    match out.value {
        None => ex.violation("C05/run-did-not-finish", "scenario exceeded 600 s simulated".into()),
        Some(Err((c, d))) => ex.violation(&c, d),
        Some(Ok((problems, probes, cancels))) => {
            ex.probe("cuts_with_driver_loop_iteration_in_between", probes.0);
            ex.fault("delivery_cut_inside_frame", probes.1);
            ex.fault("app_calls_cancelled_and_reissued", cancels);
            ex.nontrivial = probes.1 > 0;
            if let Some((c, d)) = problems.into_iter().next() {
                ex.violation(&c, d);
            }
        }
    }
    ex
}

pub struct C05Raw;

impl TypedScenario for C05Raw {
    type Plan = Plan;
    fn name(&self) -> &'static str {
        "raw-cuts"
    }
    fn budget(&self, tier: Tier) -> usize {
        match tier {
            Tier::Quick => sweep().len() + 10_000,
            Tier::Thorough => sweep().len() + 1_500_000,
        }
    }
    fn generate(&self, seed: u64, index: usize, tier: Tier) -> Plan {
        gen_plan(seed, index, tier)
    }
    fn execute(&self, plan: &Plan, trace: bool) -> Exec {
        execute(plan, trace)
    }
    fn exhaustive_prefix(&self, _tier: Tier) -> Option<usize> {
        Some(sweep().len())
    }
    fn shrink(&self, plan: &Plan) -> Vec<Plan> {
        let v = serde_json::to_value(plan).unwrap();
        let mut c = Vec::new();
        for p in ["/control_cuts", "/request_cuts", "/session_cuts"] {
            c.extend(shrink_array(&v, p, 0));
        }
        c.extend(shrink_num(&v, "/read_cap", 0));
        c.extend(shrink_num(&v, "/session_prefix", 0));
        if let Some(x) = set_ptr(&v, "/grease_on_control", serde_json::Value::Null) {
            c.push(x);
        }
        // events -> None
        for (name, cuts) in [("control_cuts", &plan.control_cuts), ("request_cuts", &plan.request_cuts), ("session_cuts", &plan.session_cuts)] {
            for i in 0..cuts.len() {
                if let Some(x) = set_ptr(&v, &format!("/{name}/{i}/1"), serde_json::json!("None")) {
                    c.push(x);
                }
            }
        }
        c.into_iter().filter_map(|v| serde_json::from_value(v).ok()).collect()
    }
}

pub fn def() -> PropertyDef {
    PropertyDef {
        id: "C05",
        scenarios: vec![Box::new(Typed(C05Raw))],
        rule: "Each run: a scripted raw QUIC peer (client role against the real server, server role against the real client) writes its control stream (type + SETTINGS [+ GREASE frame]), the CONNECT request / response HEADERS and the session-stream bytes ([GREASE frame][unknown capsule] close capsule) in pieces; between two pieces it waits for network quiescence, performs one event (nothing, datagram for the session, datagram for another session, WebTransport uni stream, WebTransport bidi stream, GREASE frame on the control stream, GREASE uni stream, local open_uni by the application, cancellation + reissue of the pending accept calls) and waits for quiescence again; in a third of the sampled runs 2-10 such events follow the last byte of the close capsule without any gap. The first N runs sweep every single cut position 1..len-1 of every subject x every applicable event x both roles exhaustively (N is reported as exhaustive_prefix); the rest sample 0-3 cuts per subject with varied latencies, gaps, close codes, reasons and the 1-3 byte short-read cap. Oracle: outcome equals the unsegmented exchange: session established with the request fields intact; accept_uni, accept_bi and receive_datagram all return ApplicationClosed with exactly the capsule's code and reason within 30 s simulated; streams sent between the pieces are delivered intact. Non-trivial = at least one cut; distinct = distinct plan hashes.",
        assumptions: vec![
            "current-thread runtime only (the multi-thread half of the quantifier cannot be made replayable and is not claimed)",
            "hook counters (driver loop iterations between pieces, read futures dropped with partial progress) are coverage measures only, never part of the verdict",
            "raw peer + reference codec are harness code",
        ],
        real_components: vec!["wtransport (endpoint under test)", "wtransport-proto", "quinn", "quinn-proto", "rustls", "ring", "tokio scheduler + timer wheel (paused clock)"],
        stub_components: vec!["UDP sockets (SimNet)", "OS clock", "the peer: scripted raw quinn endpoint + independent reference codec"],
    }
}
