//! C12 — HTTP/3 and WebTransport stream rules are enforced with the prescribed error.
//!
//! RAW against the running driver, both roles: sequences of connection-level events
//! (critical streams opened / duplicated / finished / reset, frames on the control stream,
//! request-stream openings of every kind, WebTransport streams with invalid session ids) are
//! compiled into raw-peer scripts. A small reference model (a rule table transcribed from
//! RFC 9114 §4.1, §6.1, §6.2, §7.1, §7.2 and draft-ietf-webtrans-http3) gives, for every
//! sequence, the first prohibited event and the set of error codes the specifications allow
//! for it — or "continue". Observed at the raw peer as the CONNECTION_CLOSE application code,
//! and as continued liveness (a valid session can still be established and closed).

use crate::core::*;
use crate::rawscript::*;
use crate::refcodec as rc;
use crate::rng::Rng;
use crate::sut;
use serde::{Deserialize, Serialize};

#[derive(Serialize, Deserialize, Clone, Copy, Debug, PartialEq)]
pub enum CtlFrame {
    Settings,
    SettingsReservedId,
    SettingsDupId,
    SettingsTruncated,
    Data,
    Headers,
    Grease,
    Goaway,
    WtSignal,
    OversizeSettings,
    OversizeGrease,
}

#[derive(Serialize, Deserialize, Clone, Copy, Debug, PartialEq)]
pub enum ReqKind {
    ValidConnect,
    GreaseThenValid,
    DataFirst,
    SettingsFirst,
    BadQpack,
    /// other malformed field sections: see `bad_qpack_payload`
    BadQpackV { v: u8 },
    OversizeHeaders,
    TruncatedFin,
    EmptyFin,
    ResetImmediately,
    WtInvalidSid,
    GreaseThenWt,
    NonConnect,
}

#[derive(Serialize, Deserialize, Clone, Copy, Debug, PartialEq)]
pub enum E {
    ControlOpenSettings,
    ControlOpenBare,
    Control(CtlFrame),
    ControlFin,
    ControlReset,
    /// part of a frame (0: first byte of a 2-byte frame type; 1: type + first byte of a 2-byte
    /// length; 2: type + length 5 + 2 payload bytes; 3: GOAWAY type + length 1, no payload),
    /// then a clean FIN of the control stream
    ControlTruncFin { kind: u8 },
    QpackOpen { enc: bool },
    QpackFin { enc: bool },
    QpackReset { enc: bool },
    QpackEncCapacity0,
    Request(ReqKind),
    /// server role only: how the raw server answers the client's CONNECT request
    Response(ReqKind),
    UniWtInvalidSid { sid: u64 },
}

#[derive(Serialize, Deserialize, Clone, Debug)]
pub struct Plan {
    pub base: Script,
    pub events: Vec<E>,
    pub close_code: u32,
}

#[derive(Clone, Debug, PartialEq)]
pub enum Expect {
    Continue,
    /// the connection must be closed with one of these application codes
    Close(Vec<u64>),
    /// either reaction is compatible with the specifications as the property states them:
    /// ignore the element and carry on, or close with one of these codes
    CloseOrContinue(Vec<u64>),
}

#[derive(Default, Clone)]
struct Model {
    control_open: bool,
    settings: bool,
    qenc: bool,
    qdec: bool,
    session: bool,
}

/// Reference model: returns the expectation of the first event that is prohibited, if any.
pub fn model(events: &[E], server_under_test: bool) -> (Expect, Option<usize>) {
    use rc::*;
    let mut m = Model::default();
    for (i, e) in events.iter().enumerate() {
        let close = |codes: &[u64]| (Expect::Close(codes.to_vec()), Some(i));
        match e {
            E::ControlOpenSettings | E::ControlOpenBare => {
                if m.control_open {
                    return close(&[H3_STREAM_CREATION_ERROR]); // RFC 9114 6.2.1: only one control stream
                }
                m.control_open = true;
                if *e == E::ControlOpenSettings {
                    m.settings = true;
                }
            }
            E::Control(f) => {
                if !m.control_open {
                    continue; // generator never produces this; no-op when compiled
                }
                if !m.settings {
                    // RFC 9114 6.2.1 / 7.2.4: the first frame MUST be SETTINGS
                    match f {
                        CtlFrame::Settings => m.settings = true,
                        CtlFrame::SettingsReservedId | CtlFrame::SettingsDupId => return close(&[H3_SETTINGS_ERROR]),
                        CtlFrame::SettingsTruncated => return close(&[H3_FRAME_ERROR, H3_SETTINGS_ERROR]),
                        CtlFrame::Data | CtlFrame::Headers => return close(&[H3_MISSING_SETTINGS, H3_FRAME_UNEXPECTED]),
                        // A reserved (GREASE) type ahead of SETTINGS: RFC 9114 6.2.1 - "If the first frame
                        // of the control stream is any other frame type, this MUST be treated as a
                        // connection error of type H3_MISSING_SETTINGS"; the property's mechanism list
                        // names the rule (first frame must be SETTINGS, later only GREASE).
                        CtlFrame::Grease => return close(&[H3_MISSING_SETTINGS]),
                        // A type the endpoint does not implement at all (GOAWAY, MAX_PUSH_ID ...) is
                        // dropped by the frame parser below the layer where that rule lives; RFC 9114
                        // section 9 words this case as SHOULD ("an unknown frame type does not satisfy
                        // that requirement and SHOULD be treated as an error"). Both reactions are
                        // accepted; the rest of the sequence is evaluated without this event.
                        CtlFrame::Goaway => {
                            let mut rest: Vec<E> = events[..i].to_vec();
                            rest.extend_from_slice(&events[i + 1..]);
                            return match model(&rest, server_under_test) {
                                (Expect::Continue, _) => (Expect::CloseOrContinue(vec![H3_MISSING_SETTINGS]), Some(i)),
                                (Expect::Close(mut c), _) => {
                                    c.push(H3_MISSING_SETTINGS);
                                    (Expect::Close(c), Some(i))
                                }
                                (Expect::CloseOrContinue(mut c), _) => {
                                    c.push(H3_MISSING_SETTINGS);
                                    (Expect::CloseOrContinue(c), Some(i))
                                }
                            };
                        }
                        CtlFrame::WtSignal => return close(&[H3_MISSING_SETTINGS, H3_FRAME_UNEXPECTED, H3_FRAME_ERROR]),
                        CtlFrame::OversizeSettings => return close(&[H3_EXCESSIVE_LOAD]),
                        CtlFrame::OversizeGrease => return close(&[H3_EXCESSIVE_LOAD, H3_MISSING_SETTINGS]),
                    }
                } else {
                    match f {
                        // RFC 9114 7.2.4: a second SETTINGS frame is H3_FRAME_UNEXPECTED whatever it holds
                        CtlFrame::Settings | CtlFrame::SettingsReservedId | CtlFrame::SettingsDupId | CtlFrame::SettingsTruncated => {
                            return close(&[H3_FRAME_UNEXPECTED])
                        }
                        CtlFrame::Data | CtlFrame::Headers => return close(&[H3_FRAME_UNEXPECTED]), // 7.2.1, 7.2.2
                        CtlFrame::Grease | CtlFrame::Goaway => {}
                        CtlFrame::WtSignal => return close(&[H3_FRAME_UNEXPECTED, H3_FRAME_ERROR]),
                        CtlFrame::OversizeSettings => return close(&[H3_FRAME_UNEXPECTED, H3_EXCESSIVE_LOAD]),
                        CtlFrame::OversizeGrease => return close(&[H3_EXCESSIVE_LOAD]),
                    }
                }
            }
            E::ControlFin | E::ControlReset => {
                if !m.control_open {
                    continue;
                }
                // RFC 9114 6.2.1: closure of the control stream is H3_CLOSED_CRITICAL_STREAM
                if m.settings {
                    return close(&[H3_CLOSED_CRITICAL_STREAM]);
                }
                return close(&[H3_CLOSED_CRITICAL_STREAM, H3_MISSING_SETTINGS]);
            }
            E::ControlTruncFin { .. } => {
                if !m.control_open {
                    continue;
                }
                // RFC 9114 7.1: "When a stream terminates cleanly, if the last frame on the stream
                // was truncated, this MUST be treated as a connection error of type
                // H3_FRAME_ERROR" - the specific rule for this event (the property's mechanism
                // list: UnexpectedFin -> H3_FRAME_ERROR). Before SETTINGS the other readings
                // (no SETTINGS ever came / critical stream closed) are equally prescribed.
                if m.settings {
                    return close(&[H3_FRAME_ERROR]);
                }
                return close(&[H3_FRAME_ERROR, H3_MISSING_SETTINGS, H3_CLOSED_CRITICAL_STREAM]);
            }
            E::QpackOpen { enc } => {
                let slot = if *enc { &mut m.qenc } else { &mut m.qdec };
                if *slot {
                    return close(&[H3_STREAM_CREATION_ERROR]); // RFC 9204 4.2
                }
                *slot = true;
            }
            E::QpackFin { enc } | E::QpackReset { enc } => {
                if (*enc && m.qenc) || (!*enc && m.qdec) {
                    return close(&[H3_CLOSED_CRITICAL_STREAM]); // RFC 9204 4.2
                }
            }
            E::QpackEncCapacity0 => {}
            E::Request(k) => match k {
                ReqKind::ValidConnect | ReqKind::GreaseThenValid => m.session = true,
                ReqKind::DataFirst => return close(&[H3_FRAME_UNEXPECTED]), // RFC 9114 4.1
                ReqKind::SettingsFirst => return close(&[H3_FRAME_UNEXPECTED]), // 7.2.4
                ReqKind::BadQpack | ReqKind::BadQpackV { .. } => return close(&[QPACK_DECOMPRESSION_FAILED]), // RFC 9204 2.2
                ReqKind::OversizeHeaders => return close(&[H3_EXCESSIVE_LOAD]),
                ReqKind::TruncatedFin => return close(&[H3_FRAME_ERROR]), // 7.1
                ReqKind::EmptyFin | ReqKind::ResetImmediately | ReqKind::NonConnect => {}
                ReqKind::WtInvalidSid => return close(&[H3_ID_ERROR]),
                ReqKind::GreaseThenWt => return close(&[H3_FRAME_ERROR, H3_FRAME_UNEXPECTED]),
            },
            // the response to CONNECT, as read by Endpoint::connect (RFC 9114 4.1: a response
            // starts with HEADERS; 7.2.4; 7.1; RFC 9204 2.2)
            E::Response(k) => match k {
                ReqKind::ValidConnect | ReqKind::GreaseThenValid => m.session = true,
                ReqKind::DataFirst | ReqKind::SettingsFirst => return close(&[H3_FRAME_UNEXPECTED]),
                ReqKind::BadQpack | ReqKind::BadQpackV { .. } => return close(&[QPACK_DECOMPRESSION_FAILED]),
                ReqKind::OversizeHeaders => return close(&[H3_EXCESSIVE_LOAD]),
                ReqKind::TruncatedFin => return close(&[H3_FRAME_ERROR]),
                ReqKind::GreaseThenWt => return close(&[H3_FRAME_UNEXPECTED, H3_FRAME_ERROR]),
                _ => {}
            },
            E::UniWtInvalidSid { .. } => return close(&[H3_ID_ERROR]),
        }
    }
    let _ = (server_under_test, m.session);
    (Expect::Continue, None)
}

const CTL_FRAMES: [CtlFrame; 11] = [
    CtlFrame::Settings,
    CtlFrame::SettingsReservedId,
    CtlFrame::SettingsDupId,
    CtlFrame::SettingsTruncated,
    CtlFrame::Data,
    CtlFrame::Headers,
    CtlFrame::Grease,
    CtlFrame::Goaway,
    CtlFrame::WtSignal,
    CtlFrame::OversizeSettings,
    CtlFrame::OversizeGrease,
];

pub const BAD_QPACK_VARIANTS: u8 = 9;

/// Malformed field sections (all must be QPACK_DECOMPRESSION_FAILED, RFC 9204 2.2 / 6).
pub fn bad_qpack_payload(v: u8) -> Vec<u8> {
    match v {
        // prefix integer whose continuation is long enough to shift past the word size
        0 => {
            let mut p = vec![0x00, 0x00, 0xff];
            p.extend_from_slice(&[0x80; 12]);
            p.push(0x01);
            p
        }
        // Required Insert Count that overflows
        1 => {
            let mut p = vec![0xff];
            p.extend_from_slice(&[0xff; 10]);
            p.push(0x7f);
            p.push(0x00);
            p
        }
        // static index out of range (99)
        2 => vec![0x00, 0x00, 0xff, 0x24],
        // literal with name reference to the dynamic table
        3 => vec![0x00, 0x00, 0x40, 0x01, b'x'],
        // indexed field line with post-base index
        4 => vec![0x00, 0x00, 0x10],
        // string length larger than the remaining input
        5 => vec![0x00, 0x00, 0x27, 0x7f, b'a'],
        // Huffman-coded value containing EOS
        6 => vec![0x00, 0x00, 0x51, 0x84, 0xff, 0xff, 0xff, 0xff],
        // value that is not UTF-8 (this implementation exposes fields as strings)
        7 => vec![0x00, 0x00, 0x51, 0x02, 0xff, 0xfe],
        // truncated: field line prefix only
        _ => vec![0x00, 0x00, 0x5f],
    }
}

const REQ_KINDS: [ReqKind; 12] = [
    ReqKind::ValidConnect,
    ReqKind::GreaseThenValid,
    ReqKind::DataFirst,
    ReqKind::SettingsFirst,
    ReqKind::BadQpack,
    ReqKind::OversizeHeaders,
    ReqKind::TruncatedFin,
    ReqKind::EmptyFin,
    ReqKind::ResetImmediately,
    ReqKind::WtInvalidSid,
    ReqKind::GreaseThenWt,
    ReqKind::NonConnect,
];

fn alphabet(server_under_test: bool) -> Vec<E> {
    let mut a = vec![E::ControlOpenSettings, E::ControlOpenBare, E::ControlFin, E::ControlReset];
    for f in CTL_FRAMES {
        a.push(E::Control(f));
    }
    for kind in 0..4u8 {
        a.push(E::ControlTruncFin { kind });
    }
    for enc in [true, false] {
        a.push(E::QpackOpen { enc });
        a.push(E::QpackFin { enc });
        a.push(E::QpackReset { enc });
    }
    a.push(E::QpackEncCapacity0);
    for sid in [1u64, 2, 3, 5, 7] {
        a.push(E::UniWtInvalidSid { sid });
    }
    if server_under_test {
        // only a client opens request streams
        for k in REQ_KINDS {
            a.push(E::Request(k));
        }
        for v in 0..BAD_QPACK_VARIANTS {
            a.push(E::Request(ReqKind::BadQpackV { v }));
        }
    } else {
        // what a server can do on a stream it initiates: a WebTransport signal with a bad id
        a.push(E::Request(ReqKind::WtInvalidSid));
        a.push(E::Request(ReqKind::GreaseThenWt));
        for k in [ReqKind::ValidConnect, ReqKind::GreaseThenValid, ReqKind::DataFirst, ReqKind::SettingsFirst, ReqKind::BadQpack, ReqKind::OversizeHeaders, ReqKind::TruncatedFin, ReqKind::GreaseThenWt] {
            a.push(E::Response(k));
        }
        for v in 0..BAD_QPACK_VARIANTS {
            a.push(E::Response(ReqKind::BadQpackV { v }));
        }
    }
    a
}

/// A sequence is usable when every event has its precondition (frames/FIN need the stream
/// to exist) and at most one session is requested.
fn usable(seq: &[E]) -> bool {
    let mut control = false;
    let mut qenc = false;
    let mut qdec = false;
    let mut sessions = 0;
    let mut settings = false;
    for e in seq {
        match e {
            E::ControlOpenSettings => {
                control = true;
                settings = true;
            }
            E::Control(CtlFrame::Settings) if control => settings = true,
            E::Response(_) => {
                // the client sends its request only once it has the peer's SETTINGS
                sessions += 1;
                if !settings || sessions > 1 {
                    return false;
                }
            }
            E::ControlOpenBare => control = true,
            E::Control(_) | E::ControlFin | E::ControlReset | E::ControlTruncFin { .. } => {
                if !control {
                    return false;
                }
            }
            E::QpackOpen { enc } => {
                if *enc {
                    qenc = true
                } else {
                    qdec = true
                }
            }
            E::QpackFin { enc } | E::QpackReset { enc } => {
                if (*enc && !qenc) || (!*enc && !qdec) {
                    return false;
                }
            }
            E::QpackEncCapacity0 => {
                if !qenc {
                    return false;
                }
            }
            E::Request(ReqKind::ValidConnect) | E::Request(ReqKind::GreaseThenValid) => {
                sessions += 1;
                if sessions > 1 {
                    return false;
                }
            }
            _ => {}
        }
    }
    true
}

fn sweep(server_under_test: bool) -> &'static Vec<Vec<E>> {
    static S: [std::sync::OnceLock<Vec<Vec<E>>>; 2] = [std::sync::OnceLock::new(), std::sync::OnceLock::new()];
    S[server_under_test as usize].get_or_init(|| {
        let a = alphabet(server_under_test);
        let mut v = Vec::new();
        for x in &a {
            if usable(&[*x]) {
                v.push(vec![*x]);
            }
        }
        for x in &a {
            for y in &a {
                if usable(&[*x, *y]) {
                    v.push(vec![*x, *y]);
                }
            }
        }
        v
    })
}

pub fn sweep_len() -> usize {
    sweep(true).len() + sweep(false).len()
}

pub fn gen_plan(seed: u64, index: usize, _tier: Tier) -> Plan {
    let mut rng = Rng::new(seed, "c12");
    let (server_under_test, events) = if index < sweep(true).len() {
        (true, sweep(true)[index].clone())
    } else if index < sweep_len() {
        (false, sweep(false)[index - sweep(true).len()].clone())
    } else {
        let sut = rng.coin();
        let a = alphabet(sut);
        // half of the sampled sequences are built from events that are permitted on their own
        // (so "no permitted sequence is rejected" is explored at depth), optionally followed by
        // one arbitrary event
        let benign: Vec<E> = a.iter().copied().filter(|e| usable(&[*e]) && model(&[*e], sut).0 == Expect::Continue).collect();
        let benign_mode = rng.coin();
        loop {
            let n = rng.usize(3, 6);
            let mut seq: Vec<E> = (0..n).map(|_| if benign_mode { *rng.pick(&benign) } else { *rng.pick(&a) }).collect();
            if benign_mode && rng.coin() {
                seq.push(*rng.pick(&a));
            }
            if usable(&seq) {
                break (sut, seq);
            }
        }
    };
    let mut base = base_script(seed, server_under_test);
    base.net.lat_min_us = *rng.pick(&[200u64, 1_000]);
    base.read_cap = if index >= sweep_len() && rng.chance_pm(150) { rng.usize(1, 3) } else { 0 };
    Plan { base, events, close_code: rng.next_u64() as u32 }
}

fn ctl_frame_bytes(f: CtlFrame) -> Vec<u8> {
    use rc::*;
    match f {
        CtlFrame::Settings => frame(FRAME_SETTINGS, &settings_payload(&default_peer_settings())),
        CtlFrame::SettingsReservedId => frame(FRAME_SETTINGS, &settings_payload(&[(SET_H3_DATAGRAM, 1), (0x02, 0)])),
        CtlFrame::SettingsDupId => frame(FRAME_SETTINGS, &settings_payload(&[(SET_H3_DATAGRAM, 1), (SET_H3_DATAGRAM, 1)])),
        CtlFrame::SettingsTruncated => {
            // payload ends in the middle of a varint
            let mut p = settings_payload(&[(SET_H3_DATAGRAM, 1)]);
            p.push(0x80);
            frame(FRAME_SETTINGS, &p)
        }
        CtlFrame::Data => frame(FRAME_DATA, b"data"),
        CtlFrame::Headers => frame(FRAME_HEADERS, &qpack_encode(&connect_request_fields("a", "/"), EncStyle::PlainLiteral)),
        CtlFrame::Grease => frame(grease(9), b"grease"),
        CtlFrame::Goaway => frame(FRAME_GOAWAY, &varint(0)),
        CtlFrame::WtSignal => wt_bidi_signal(0),
        CtlFrame::OversizeSettings => frame(FRAME_SETTINGS, &vec![0x40; 4098]),
        CtlFrame::OversizeGrease => frame(grease(2), &vec![0; 5000]),
    }
}

/// Slots: 0 control (first one), 1 CONNECT (the session), 20.. further streams.
pub fn compile(p: &Plan) -> Script {
    use rc::*;
    let sut_server = p.base.server_under_test;
    let mut acts = Vec::new();
    let mut next = 20usize;
    let mut control_slot: Option<usize> = None;
    let mut control_has_settings = false;
    let mut qenc: Option<usize> = None;
    let mut qdec: Option<usize> = None;
    let mut session_requested = false;
    let mut client_connect_accepted = false;
    for e in &p.events {
        match e {
            E::ControlOpenSettings | E::ControlOpenBare => {
                let slot = if control_slot.is_none() { SLOT_CONTROL } else { next };
                if control_slot.is_some() {
                    next += 1;
                }
                let mut b = varint(STREAM_CONTROL);
                if *e == E::ControlOpenSettings {
                    b.extend_from_slice(&frame(FRAME_SETTINGS, &settings_payload(&default_peer_settings())));
                    if control_slot.is_none() {
                        control_has_settings = true;
                    }
                }
                acts.push(Act::OpenUni { slot });
                acts.push(Act::Write { slot, hex: hex(&b) });
                if control_slot.is_none() {
                    control_slot = Some(slot);
                }
            }
            E::Control(f) => {
                if let Some(slot) = control_slot {
                    acts.push(Act::Write { slot, hex: hex(&ctl_frame_bytes(*f)) });
                    if *f == CtlFrame::Settings {
                        control_has_settings = true;
                    }
                }
            }
            E::ControlFin => {
                if let Some(slot) = control_slot {
                    acts.push(Act::Fin { slot });
                }
            }
            E::ControlReset => {
                if let Some(slot) = control_slot {
                    acts.push(Act::Reset { slot, code: 0x10c });
                }
            }
            E::ControlTruncFin { kind } => {
                if let Some(slot) = control_slot {
                    let g = varint(grease(9)); // a 2-byte varint
                    let b: Vec<u8> = match kind {
                        0 => g[..1].to_vec(),
                        1 => [g.clone(), vec![0x40]].concat(),
                        2 => [g.clone(), vec![0x05, 0xaa, 0xbb]].concat(),
                        _ => vec![FRAME_GOAWAY as u8, 0x01],
                    };
                    acts.push(Act::Write { slot, hex: hex(&b) });
                    acts.push(Act::Fin { slot });
                }
            }
            E::QpackOpen { enc } => {
                let slot = next;
                next += 1;
                acts.push(Act::OpenUni { slot });
                acts.push(Act::Write { slot, hex: hex(&varint(if *enc { STREAM_QPACK_ENC } else { STREAM_QPACK_DEC })) });
                let r = if *enc { &mut qenc } else { &mut qdec };
                if r.is_none() {
                    *r = Some(slot);
                }
            }
            E::QpackFin { enc } => {
                if let Some(slot) = if *enc { qenc } else { qdec } {
                    acts.push(Act::Fin { slot });
                }
            }
            E::QpackReset { enc } => {
                if let Some(slot) = if *enc { qenc } else { qdec } {
                    acts.push(Act::Reset { slot, code: 0x10c });
                }
            }
            E::QpackEncCapacity0 => {
                if let Some(slot) = qenc {
                    acts.push(Act::Write { slot, hex: "20".into() }); // Set Dynamic Table Capacity = 0
                }
            }
            E::UniWtInvalidSid { sid } => {
                let slot = next;
                next += 1;
                let mut b = wt_uni_header(*sid);
                b.extend_from_slice(b"x");
                acts.push(Act::OpenUni { slot });
                acts.push(Act::Write { slot, hex: hex(&b) });
            }
            E::Response(k) => {
                let slot = SLOT_CONNECT;
                acts.push(Act::AcceptBi { slot });
                client_connect_accepted = true;
                let ok = headers_frame(&crate::rawpeer::status_fields("200"), EncStyle::PlainLiteral);
                let bytes: Vec<u8> = match k {
                    ReqKind::ValidConnect => ok,
                    ReqKind::GreaseThenValid => {
                        let mut b = frame(grease(4), b"g");
                        b.extend_from_slice(&ok);
                        b
                    }
                    ReqKind::DataFirst => frame(FRAME_DATA, b"data-first"),
                    ReqKind::SettingsFirst => frame(FRAME_SETTINGS, &settings_payload(&[(SET_H3_DATAGRAM, 1)])),
                    ReqKind::BadQpack => frame(FRAME_HEADERS, &[0x00, 0x00, 0x80]),
                    ReqKind::BadQpackV { v } => frame(FRAME_HEADERS, &bad_qpack_payload(*v)),
                    ReqKind::OversizeHeaders => frame(FRAME_HEADERS, &vec![0u8; 4097]),
                    ReqKind::TruncatedFin => {
                        let mut b = ok.clone();
                        b.truncate(ok.len() - 2);
                        b
                    }
                    ReqKind::GreaseThenWt => {
                        let mut b = frame(grease(4), b"g");
                        b.extend_from_slice(&wt_bidi_signal(0));
                        b
                    }
                    _ => ok,
                };
                acts.push(Act::Write { slot, hex: hex(&bytes) });
                if *k == ReqKind::TruncatedFin {
                    acts.push(Act::Fin { slot });
                }
            }
            E::Request(k) => {
                let is_session = matches!(k, ReqKind::ValidConnect | ReqKind::GreaseThenValid);
                let slot = if is_session { SLOT_CONNECT } else { next };
                if !is_session {
                    next += 1;
                }
                if sut_server {
                    acts.push(Act::OpenBi { slot });
                } else {
                    // server role: bidirectional streams the raw server initiates
                    acts.push(Act::OpenBi { slot });
                }
                let valid = headers_frame(&connect_request_fields("10.0.0.1:4433", "/script"), EncStyle::PlainLiteral);
                let bytes: Vec<u8> = match k {
                    ReqKind::ValidConnect => valid,
                    ReqKind::GreaseThenValid => {
                        let mut b = frame(grease(4), b"g");
                        b.extend_from_slice(&valid);
                        b
                    }
                    ReqKind::DataFirst => frame(FRAME_DATA, b"data-first"),
                    ReqKind::SettingsFirst => frame(FRAME_SETTINGS, &settings_payload(&[(SET_H3_DATAGRAM, 1)])),
                    // field section whose first field line references the dynamic table
                    ReqKind::BadQpack => frame(FRAME_HEADERS, &[0x00, 0x00, 0x80]),
                    ReqKind::BadQpackV { v } => frame(FRAME_HEADERS, &bad_qpack_payload(*v)),
                    ReqKind::OversizeHeaders => frame(FRAME_HEADERS, &vec![0u8; 4097]),
                    ReqKind::TruncatedFin => {
                        let mut b = valid.clone();
                        b.truncate(valid.len() - 3);
                        b
                    }
                    ReqKind::EmptyFin | ReqKind::ResetImmediately => vec![],
                    ReqKind::WtInvalidSid => {
                        let mut b = wt_bidi_signal([1u64, 2, 3][(p.close_code % 3) as usize]);
                        b.extend_from_slice(b"x");
                        b
                    }
                    ReqKind::GreaseThenWt => {
                        let mut b = frame(grease(4), b"g");
                        b.extend_from_slice(&wt_bidi_signal(0));
                        b
                    }
                    ReqKind::NonConnect => {
                        let mut f = connect_request_fields("10.0.0.1:4433", "/script");
                        f[0].1 = "GET".into();
                        headers_frame(&f, EncStyle::PlainLiteral)
                    }
                };
                if !bytes.is_empty() {
                    acts.push(Act::Write { slot, hex: hex(&bytes) });
                }
                match k {
                    ReqKind::TruncatedFin | ReqKind::EmptyFin => acts.push(Act::Fin { slot }),
                    ReqKind::ResetImmediately => acts.push(Act::Reset { slot, code: 0x10c }),
                    _ => {}
                }
                if is_session {
                    session_requested = true;
                }
            }
        }
        acts.push(Act::Gap);
    }
    // ---- continuation: whatever is still missing for a valid session, then a clean close ----
    match control_slot {
        None => {
            let mut b = varint(STREAM_CONTROL);
            b.extend_from_slice(&frame(FRAME_SETTINGS, &settings_payload(&default_peer_settings())));
            acts.push(Act::OpenUni { slot: SLOT_CONTROL });
            acts.push(Act::Write { slot: SLOT_CONTROL, hex: hex(&b) });
        }
        Some(slot) if !control_has_settings => {
            acts.push(Act::Write { slot, hex: hex(&frame(FRAME_SETTINGS, &settings_payload(&default_peer_settings()))) });
        }
        _ => {}
    }
    if sut_server {
        if !session_requested {
            acts.push(Act::OpenBi { slot: SLOT_CONNECT });
            acts.push(Act::Write { slot: SLOT_CONNECT, hex: hex(&headers_frame(&connect_request_fields("10.0.0.1:4433", "/script"), EncStyle::PlainLiteral)) });
        }
    } else if !client_connect_accepted {
        acts.push(Act::AcceptBi { slot: SLOT_CONNECT });
        acts.push(Act::Write { slot: SLOT_CONNECT, hex: hex(&headers_frame(&crate::rawpeer::status_fields("200"), EncStyle::PlainLiteral)) });
        client_connect_accepted = true;
    }
    let _ = client_connect_accepted;
    acts.push(Act::WaitSession);
    acts.push(Act::Gap);
    acts.push(close_capsule_act(p.close_code, b"c12"));
    let mut s = p.base.clone();
    s.acts = acts;
    s.settle_ms = 500;
    s
}

pub fn execute(plan: &Plan, trace: bool) -> Exec {
    let script = rc::with_stretch(plan.base.seed, plan.base.stretch_pm, || compile(plan));
    let (mut ex, obs) = run_script(&script, trace, "C12");
    let Some(obs) = obs else { return ex };
    ex.nontrivial = true;
    let (expect, at) = model(&plan.events, plan.base.server_under_test);
    let seq = format!("{:?}", plan.events);
    match expect {
        Expect::Close(allowed) => {
            ex.probe("prohibited_sequences", 1);
            match &obs.raw_close {
                RawClose::Application { code, .. } if allowed.contains(code) => {}
                RawClose::Application { code, .. } => ex.violation(
                    "C12/wrong-error-code",
                    format!("sequence {seq}: event #{} is prohibited; the connection was closed with {code:#x}, the specifications prescribe one of {:x?}", at.unwrap(), allowed),
                ),
                other => ex.violation(
                    "C12/prohibited-accepted",
                    format!("sequence {seq}: event #{} is prohibited (expected close with one of {:x?}) but the raw peer observed {other:?}; session: {:?}", at.unwrap(), allowed, obs.sut),
                ),
            }
        }
        Expect::CloseOrContinue(allowed) if matches!(&obs.raw_close, RawClose::Application { code, .. } if *code != rc::H3_NO_ERROR) => {
            ex.probe("prohibited_sequences", 1);
            match &obs.raw_close {
                RawClose::Application { code, .. } if allowed.contains(code) => {}
                other => ex.violation("C12/wrong-error-code", format!("sequence {seq}: closed with {other:?}, allowed {:x?} or continue", allowed)),
            }
        }
        Expect::Continue | Expect::CloseOrContinue(_) => {
            ex.probe("permitted_sequences", 1);
            // nothing prohibited happened: the session must establish and end with the capsule
            let established = matches!(obs.sut, SutSession::Established { .. });
            let closed_ok = obs
                .app
                .as_ref()
                .map(|a| a.ended.len() >= 3 && a.ended.iter().all(|(_, e)| matches!(sut::app_closed(e), Some((c, _)) if c == plan.close_code as u64)))
                .unwrap_or(false);
            if !established || !closed_ok {
                ex.violation(
                    "C12/permitted-rejected",
                    format!(
                        "sequence {seq} contains nothing prohibited, yet: session {:?}, application close reports {:?}, raw peer saw {:?}",
                        obs.sut,
                        obs.app.as_ref().map(|a| a.ended.clone()),
                        obs.raw_close
                    ),
                );
            } else if !matches!(&obs.raw_close, RawClose::Application { code, .. } if *code == rc::H3_NO_ERROR) {
                ex.violation("C12/transport-close", format!("sequence {seq}: clean session end, but the raw peer saw {:?} instead of H3_NO_ERROR", obs.raw_close));
            }
        }
    }
    ex
}

pub struct C12Raw;

impl TypedScenario for C12Raw {
    type Plan = Plan;
    fn name(&self) -> &'static str {
        "raw-event-sequences"
    }
    fn budget(&self, tier: Tier) -> usize {
        match tier {
            Tier::Quick => sweep_len() + 12_000,
            Tier::Thorough => sweep_len() + 1_500_000,
        }
    }
    fn generate(&self, seed: u64, index: usize, tier: Tier) -> Plan {
        gen_plan(seed, index, tier)
    }
    fn execute(&self, plan: &Plan, trace: bool) -> Exec {
        execute(plan, trace)
    }
    fn exhaustive_prefix(&self, _tier: Tier) -> Option<usize> {
        Some(sweep_len())
    }
    fn shrink(&self, plan: &Plan) -> Vec<Plan> {
        let v = serde_json::to_value(plan).unwrap();
        let mut c = shrink_array(&v, "/events", 1);
        c.extend(shrink_num(&v, "/base/read_cap", 0));
        c.into_iter()
            .filter_map(|v| serde_json::from_value::<Plan>(v).ok())
            .filter(|p| usable(&p.events))
            .collect()
    }
}

pub fn def() -> PropertyDef {
    PropertyDef {
        id: "C12",
        scenarios: vec![Box::new(Typed(C12Raw))],
        rule: "Each run: a sequence of connection-level events performed by the scripted raw peer against the running driver (client role against the real server, server role against the real client): open the control stream with / without SETTINGS, open it again, FIN / reset it, FIN it in the middle of a frame (type, length or payload cut); on it: SETTINGS, SETTINGS with a reserved id, with a duplicated id, with a truncated payload, DATA, HEADERS, GREASE, GOAWAY, a WebTransport signal, oversize frames; QPACK encoder / decoder streams opened, duplicated, finished, reset; request streams whose first frame is a valid extended CONNECT, GREASE then CONNECT, DATA, SETTINGS, HEADERS with a dynamic-table reference, oversize HEADERS, a frame truncated by FIN, nothing then FIN, immediate reset, a WebTransport signal with a non-client-bidi session id, GREASE then a WebTransport signal, a non-CONNECT request; WebTransport uni streams with invalid session ids. The first N runs enumerate every usable sequence of depth 1 and 2 for both roles (exhaustive_prefix), the rest sample depth 3-6 (with optional short-read caps). Oracle: a reference model (rule table from RFC 9114 / RFC 9204 / the WebTransport draft) names the first prohibited event and the set of application error codes allowed for it; the CONNECTION_CLOSE code seen by the raw peer must be in the set; if nothing is prohibited, a valid session must still establish and end with the close capsule (H3_NO_ERROR on the wire). Where the specifications allow more than one reaction the table holds the set. Distinct = distinct plan hashes (every run is non-trivial).",
        assumptions: vec![
            "the rule table is transcribed by hand from the specifications; only rules the property enumerates are included",
            "implementation limits that are documented constants (4096 B frame-parse limit -> H3_EXCESSIVE_LOAD) are part of the table",
            "raw peer + reference codec are harness code; current-thread runtime; fault-free network",
        ],
        real_components: vec!["wtransport (endpoint under test)", "wtransport-proto", "quinn", "quinn-proto", "rustls", "ring", "tokio scheduler + timer wheel (paused clock)"],
        stub_components: vec!["UDP sockets (SimNet)", "OS clock", "the peer: scripted raw quinn endpoint + independent reference codec"],
    }
}
