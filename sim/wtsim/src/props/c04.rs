//! C04 — session termination is reported with the peer's exact code and reason.

use crate::core::*;
use crate::harness::{self, EpKnobs};
use crate::rawscript::*;
use crate::refcodec as rc;
use crate::rng::Rng;
use crate::simnet::{NetCfg, SimNet};
use crate::simrt::{self, RtKnobs};
use crate::sut::{self, App};
use serde::{Deserialize, Serialize};
use std::sync::{Arc, Mutex};
use std::time::Duration;
use wtransport::error::ConnectionError;

#[derive(Serialize, Deserialize, Clone, Debug, PartialEq)]
pub enum Style {
    Capsule { code: u32, reason_hex: String },
    CleanFin,
    QuicClose { code: u64, reason_hex: String },
    ResetStream { code: u64 },
    FinInsideFrame { keep: usize },
    /// a frame of a type the library does not know (not GREASE) that announces `declared`
    /// payload bytes, of which only `sent` are written before the FIN
    FinInsideUnknownFrame { declared: usize, sent: usize },
    CapsuleTooShort { len: usize },
    CapsuleReasonTooLong { len: usize },
    CapsuleBadUtf8,
    CapsuleLengthBeyondFrame,
}

#[derive(Serialize, Deserialize, Clone, Debug, PartialEq)]
pub enum Phase {
    Idle,
    WithStreams { uni: usize, bidi: usize },
    AfterCancelledAccepts,
    /// an unknown capsule and a GREASE frame precede the terminating element
    AfterIgnorableElements,
    /// a DRAIN_WEBTRANSPORT_SESSION capsule (0x78ae, advisory: "please wind down") precedes the
    /// terminating element by a while; the session ends only with that element
    AfterDrain { wait_ms: u64 },
}

#[derive(Serialize, Deserialize, Clone, Debug)]
pub struct Plan {
    pub base: Script,
    pub style: Style,
    pub phase: Phase,
    /// Style::Capsule only - what follows the close capsule inside the same DATA frame:
    /// 0 nothing, 1 a small reserved-type capsule, 2 a 1100-byte reserved-type capsule,
    /// 3 a second close capsule with another code and reason (the first one counts)
    #[serde(default)]
    pub trailing: u8,
}

fn utf8_reason(rng: &mut Rng, len: usize) -> Vec<u8> {
    // exactly `len` bytes of valid UTF-8, mixing 1-, 2-, 3- and 4-byte characters
    let mut s = String::new();
    while s.len() < len {
        let left = len - s.len();
        let c = match (rng.below(4), left) {
            (3, l) if l >= 4 => '\u{1F600}',
            (2, l) if l >= 3 => '\u{20AC}',
            (1, l) if l >= 2 => '\u{00E9}',
            _ => (b'a' + rng.below(26) as u8) as char,
        };
        s.push(c);
    }
    s.into_bytes()
}

const U32_CODES: [u32; 17] = [0, 1, 255, 256, 65535, 65536, 0x7fff_ffff, 0x8000_0000, u32::MAX, 0x33, 0x100, 0x104, 0x10c, 0x200, 0x170d_7b68, 0x3994_bd84, 0x10a];
const VARINT_CODES: [u64; 18] = [0, 1, 63, 64, 16383, 16384, (1 << 30) - 1, 1 << 30, (1 << 62) - 1, 0x100, 0x33, 0x104, 0x10c, 0x200, 0x170d_7b68, 0x3994_bd84, 0x52e4_a40f_a8db, 0x52e5_ac98_3162];
const REASON_LENS: [usize; 9] = [0, 1, 2, 63, 64, 255, 1000, 1023, 1024];

pub fn gen_plan(seed: u64, index: usize, _tier: Tier) -> Plan {
    let mut rng = Rng::new(seed, "c04");
    let server_under_test = index % 2 == 0;
    let mut base = base_script(seed, server_under_test);
    base.net.lat_min_us = *rng.pick(&[200u64, 1_000, 10_000]);
    base.read_cap = if rng.chance_pm(100) { rng.usize(1, 3) } else { 0 };
    let i = index / 2;
    let style = match i % 12 {
        0 | 1 | 2 => {
            let code = if rng.coin() { *rng.pick(&U32_CODES) } else { rng.next_u64() as u32 };
            let len = if rng.coin() { *rng.pick(&REASON_LENS) } else { rng.usize(0, 1024) };
            Style::Capsule { code, reason_hex: hex(&utf8_reason(&mut rng, len)) }
        }
        3 => Style::CleanFin,
        4 | 5 => {
            let code = if rng.coin() { *rng.pick(&VARINT_CODES) } else { rng.range(0, rc::VARINT_MAX) };
            // QUIC reason phrases are not limited to the capsule's 1024 bytes
            let len = *rng.pick(&[0usize, 1, 10, 100, 200, 1023, 1024, 1025, 1060]);
            Style::QuicClose { code, reason_hex: hex(&rng.bytes(len)) }
        }
        6 => Style::ResetStream { code: *rng.pick(&VARINT_CODES) },
        7 if rng.coin() => Style::FinInsideFrame { keep: rng.usize(1, 10) },
        7 => {
            let sent = *rng.pick(&[0usize, 1, 63, 64, 65, 128, 256, 300]);
            Style::FinInsideUnknownFrame { declared: sent + *rng.pick(&[1usize, 64, 500]), sent }
        }
        8 => Style::CapsuleTooShort { len: rng.usize(0, 3) },
        9 => Style::CapsuleReasonTooLong { len: *rng.pick(&[1025usize, 1026, 2000, 4000]) },
        10 => Style::CapsuleBadUtf8,
        _ => Style::CapsuleLengthBeyondFrame,
    };
    let phase = match rng.below(5) {
        4 => Phase::AfterDrain { wait_ms: *rng.pick(&[0u64, 50, 2_000]) },
        0 => Phase::Idle,
        1 => Phase::WithStreams { uni: rng.usize(0, 3), bidi: rng.usize(0, 2) },
        2 => Phase::AfterCancelledAccepts,
        _ => Phase::AfterIgnorableElements,
    };
    let trailing = if matches!(style, Style::Capsule { .. }) && rng.chance_pm(350) { rng.range(1, 3) as u8 } else { 0 };
    Plan { base, style, phase, trailing }
}

pub fn compile(p: &Plan) -> Script {
    let mut acts = valid_prologue(p.base.server_under_test);
    acts.push(Act::Gap);
    let mut slot = 30;
    match &p.phase {
        Phase::Idle => {}
        Phase::WithStreams { uni, bidi } => {
            for i in 0..*uni {
                let mut b = rc::wt_uni_header(0);
                b.extend_from_slice(format!("uni-{i}").as_bytes());
                acts.push(Act::OpenUni { slot });
                acts.push(Act::Write { slot, hex: hex(&b) });
                slot += 1;
            }
            for i in 0..*bidi {
                let mut b = rc::wt_bidi_signal(0);
                b.extend_from_slice(format!("bidi-{i}").as_bytes());
                acts.push(Act::OpenBi { slot });
                acts.push(Act::Write { slot, hex: hex(&b) });
                slot += 1;
            }
            acts.push(Act::Gap);
        }
        Phase::AfterCancelledAccepts => {
            acts.push(Act::AppCancelAccepts);
            acts.push(Act::Gap);
        }
        Phase::AfterDrain { wait_ms } => {
            acts.push(Act::Write { slot: SLOT_CONNECT, hex: hex(&rc::frame(rc::FRAME_DATA, &rc::capsule(0x78ae, b""))) });
            acts.push(Act::Gap);
            acts.push(Act::Sleep { us: wait_ms * 1000 });
        }
        Phase::AfterIgnorableElements => {
            let mut b = rc::frame(rc::grease(11), b"ignored");
            b.extend_from_slice(&rc::frame(rc::FRAME_DATA, &rc::capsule(rc::grease(12), b"unknown capsule")));
            acts.push(Act::Write { slot: SLOT_CONNECT, hex: hex(&b) });
        }
    }
    match &p.style {
        Style::Capsule { code, reason_hex } if p.trailing == 0 => acts.push(close_capsule_act(*code, &harness::unhex(reason_hex))),
        Style::Capsule { code, reason_hex } => {
            let mut payload = rc::close_capsule(*code, &harness::unhex(reason_hex));
            match p.trailing {
                1 => payload.extend_from_slice(&rc::capsule(rc::grease(3), b"abc")),
                2 => payload.extend_from_slice(&rc::capsule(rc::grease(5), &vec![b'x'; 1100])),
                _ => payload.extend_from_slice(&rc::close_capsule(code.wrapping_add(1), b"second capsule")),
            }
            acts.push(Act::Write { slot: SLOT_CONNECT, hex: hex(&rc::frame(rc::FRAME_DATA, &payload)) });
        }
        Style::CleanFin => acts.push(Act::Fin { slot: SLOT_CONNECT }),
        Style::QuicClose { code, reason_hex } => acts.push(Act::CloseConn { code: *code, reason_hex: reason_hex.clone() }),
        Style::ResetStream { code } => acts.push(Act::Reset { slot: SLOT_CONNECT, code: *code }),
        Style::FinInsideFrame { keep } => {
            let f = rc::frame(rc::FRAME_DATA, &rc::close_capsule(7, b"never complete"));
            let keep = (*keep).min(f.len() - 1).max(1);
            acts.push(Act::Write { slot: SLOT_CONNECT, hex: hex(&f[..keep]) });
            acts.push(Act::Fin { slot: SLOT_CONNECT });
        }
        Style::FinInsideUnknownFrame { declared, sent } => {
            let mut f = rc::varint(0x0d);
            f.extend_from_slice(&rc::varint(*declared as u64));
            f.extend_from_slice(&vec![0x5a; *sent]);
            acts.push(Act::Write { slot: SLOT_CONNECT, hex: hex(&f) });
            acts.push(Act::Fin { slot: SLOT_CONNECT });
        }
        Style::CapsuleTooShort { len } => {
            acts.push(Act::Write { slot: SLOT_CONNECT, hex: hex(&rc::frame(rc::FRAME_DATA, &rc::capsule(rc::CAPSULE_CLOSE_WT_SESSION, &vec![0u8; *len]))) })
        }
        Style::CapsuleReasonTooLong { len } => {
            let mut payload = 9u32.to_be_bytes().to_vec();
            payload.extend_from_slice(&vec![b'r'; *len]);
            acts.push(Act::Write { slot: SLOT_CONNECT, hex: hex(&rc::frame(rc::FRAME_DATA, &rc::capsule(rc::CAPSULE_CLOSE_WT_SESSION, &payload))) })
        }
        Style::CapsuleBadUtf8 => {
            let mut payload = 9u32.to_be_bytes().to_vec();
            payload.extend_from_slice(&[b'o', b'k', 0xff, 0xfe]);
            acts.push(Act::Write { slot: SLOT_CONNECT, hex: hex(&rc::frame(rc::FRAME_DATA, &rc::capsule(rc::CAPSULE_CLOSE_WT_SESSION, &payload))) })
        }
        Style::CapsuleLengthBeyondFrame => {
            // capsule header announces more payload than the DATA frame holds
            let mut cap = rc::varint(rc::CAPSULE_CLOSE_WT_SESSION);
            cap.extend_from_slice(&rc::varint(100));
            cap.extend_from_slice(&[0, 0, 0, 1]);
            // an incomplete close capsule is not a close: a complete one must still work afterwards
            let mut b = rc::frame(rc::FRAME_DATA, &cap);
            b.extend_from_slice(&rc::frame(rc::FRAME_DATA, &rc::close_capsule(77, b"after")));
            acts.push(Act::Write { slot: SLOT_CONNECT, hex: hex(&b) })
        }
    }
    let mut s = p.base.clone();
    s.acts = acts;
    s.settle_ms = 1000;
    s
}

fn check_reports(ex: &mut Exec, obs: &Obs, what: &str, pred: &dyn Fn(&ConnectionError) -> bool, expectation: &str) {
    let Some(app) = &obs.app else {
        ex.violation("C04/session-not-established", format!("{what}: no application (session {:?})", obs.sut));
        return;
    };
    if app.ended.len() < 3 {
        ex.violation(
            "C04/termination-not-reported",
            format!("{what}: only {:?} of accept_uni / accept_bi / receive_datagram returned; raw peer saw {:?}", app.ended.iter().map(|e| e.0.clone()).collect::<Vec<_>>(), obs.raw_close),
        );
        return;
    }
    for (who, e) in &app.ended {
        if !pred(e) {
            ex.violation("C04/termination-misreported", format!("{what}: pending {who} returned {e:?}; expected {expectation}"));
            return;
        }
    }
    for (who, r) in &obs.later {
        match r {
            None => {
                ex.violation("C04/later-call-hangs", format!("{what}: a later {who} did not return within 5 s"));
                return;
            }
            Some(Ok(_)) => {
                ex.violation("C04/later-call-succeeds", format!("{what}: a later {who} succeeded after termination"));
                return;
            }
            Some(Err(e)) if !pred(e) => {
                ex.violation("C04/termination-misreported", format!("{what}: later {who} returned {e:?}; expected {expectation}"));
                return;
            }
            _ => {}
        }
    }
}

pub fn execute(plan: &Plan, trace: bool) -> Exec {
    let script = rc::with_stretch(plan.base.seed, plan.base.stretch_pm, || compile(plan));
    let (mut ex, obs) = run_script(&script, trace, "C04");
    let Some(obs) = obs else { return ex };
    ex.nontrivial = true;
    let what = format!("{:?} in phase {:?} ({} under test)", plan.style, plan.phase, if plan.base.server_under_test { "server" } else { "client" });
    if !matches!(obs.sut, SutSession::Established { .. }) {
        ex.violation("C04/session-not-established", format!("{what}: {:?}", obs.sut));
        return ex;
    }
    let wire_code = match &obs.raw_close {
        RawClose::Application { code, .. } => Some(*code),
        _ => None,
    };
    match &plan.style {
        Style::Capsule { code, reason_hex } => {
            let (c, r) = (*code as u64, harness::unhex(reason_hex));
            check_reports(&mut ex, &obs, &what, &|e| sut::app_closed(e) == Some((c, r.clone())), &format!("ApplicationClosed(code {c}, reason of {} bytes)", r.len()));
            if !ex.is_violation() && wire_code != Some(rc::H3_NO_ERROR) {
                ex.violation("C04/wire-close-code", format!("{what}: raw peer saw {:?}, expected H3_NO_ERROR", obs.raw_close));
            }
        }
        Style::CleanFin => {
            check_reports(&mut ex, &obs, &what, &|e| sut::app_closed(e) == Some((0, vec![])), "ApplicationClosed(code 0, empty reason)");
            if !ex.is_violation() && wire_code != Some(rc::H3_NO_ERROR) {
                ex.violation("C04/wire-close-code", format!("{what}: raw peer saw {:?}, expected H3_NO_ERROR", obs.raw_close));
            }
        }
        Style::CapsuleLengthBeyondFrame => {
            check_reports(&mut ex, &obs, &what, &|e| sut::app_closed(e) == Some((77, b"after".to_vec())), "ApplicationClosed(77, \"after\") from the complete capsule that follows");
        }
        Style::QuicClose { code, reason_hex } => {
            let (c, r) = (*code, harness::unhex(reason_hex));
            check_reports(&mut ex, &obs, &what, &|e| sut::app_closed(e) == Some((c, r.clone())), &format!("ApplicationClosed(code {c}, reason {} bytes)", r.len()));
            if !ex.is_violation() {
                match &obs.sut_closed {
                    Some(e) if sut::app_closed(e) == Some((c, r.clone())) => {}
                    other => ex.violation("C04/closed-misreported", format!("{what}: Connection::closed() gave {other:?}")),
                }
            }
        }
        Style::ResetStream { .. } | Style::FinInsideFrame { .. } | Style::FinInsideUnknownFrame { .. } | Style::CapsuleTooShort { .. } | Style::CapsuleReasonTooLong { .. } | Style::CapsuleBadUtf8 => {
            // a protocol failure, never an application close; every report names the same
            // local error and the wire carries that error's code
            check_reports(&mut ex, &obs, &what, &|e| matches!(e, ConnectionError::LocalH3Error(_)), "a protocol-failure variant (LocalH3Error)");
            if !ex.is_violation() {
                let app = obs.app.as_ref().unwrap();
                let first = format!("{:?}", app.ended[0].1);
                if app.ended.iter().any(|(_, e)| format!("{e:?}") != first) {
                    ex.violation("C04/conflicting-causes", format!("{what}: {:?}", app.ended));
                }
                match wire_code {
                    Some(c) if c != rc::H3_NO_ERROR && first.contains(&format!("code: {c}")) => {}
                    other => ex.violation("C04/wire-close-code", format!("{what}: application told {first}, raw peer saw close code {other:?}")),
                }
            }
        }
    }
    // streams opened before the termination were handed over intact
    if let (Phase::WithStreams { uni, bidi }, Some(app)) = (&plan.phase, &obs.app) {
        if !ex.is_violation() && !matches!(plan.style, Style::QuicClose { .. }) {
            if app.accepted_uni.len() != *uni || app.accepted_bi.len() != *bidi {
                ex.violation("C04/stream-lost-at-termination", format!("{what}: accepted uni {:?} bidi {:?}", app.accepted_uni, app.accepted_bi));
            }
        }
    }
    ex
}

pub struct C04Raw;

impl TypedScenario for C04Raw {
    type Plan = Plan;
    fn name(&self) -> &'static str {
        "raw-termination"
    }
    fn budget(&self, tier: Tier) -> usize {
        match tier {
            Tier::Quick => 12000,
            Tier::Thorough => 1_500_000,
        }
    }
    fn generate(&self, seed: u64, index: usize, tier: Tier) -> Plan {
        gen_plan(seed, index, tier)
    }
    fn execute(&self, plan: &Plan, trace: bool) -> Exec {
        execute(plan, trace)
    }
    fn shrink(&self, plan: &Plan) -> Vec<Plan> {
        let mut c = Vec::new();
        if plan.phase != Phase::Idle {
            let mut p = plan.clone();
            p.phase = Phase::Idle;
            c.push(p);
        }
        if plan.base.read_cap != 0 {
            let mut p = plan.clone();
            p.base.read_cap = 0;
            c.push(p);
        }
        if let Style::Capsule { code, reason_hex } = &plan.style {
            if !reason_hex.is_empty() {
                let mut p = plan.clone();
                p.style = Style::Capsule { code: *code, reason_hex: String::new() };
                c.push(p);
            }
            if *code != 1 {
                let mut p = plan.clone();
                p.style = Style::Capsule { code: 1, reason_hex: reason_hex.clone() };
                c.push(p);
            }
        }
        c
    }
}

// ---- E2E: the real peer closes with Connection::close(code, reason) ---------------------------

#[derive(Serialize, Deserialize, Clone, Debug)]
pub struct E2EPlan {
    pub seed: u64,
    pub rt: RtKnobs,
    pub net: NetCfg,
    pub client_closes: bool,
    pub code: u64,
    pub reason_hex: String,
    pub delay_us: u64,
    pub streams_before: usize,
}

pub fn exec_e2e(p: &E2EPlan, trace: bool) -> Exec {
    let mut ex = Exec::new();
    let p = Arc::new(p.clone());
    let p2 = p.clone();
    let netslot: Arc<Mutex<Option<SimNet>>> = Arc::new(Mutex::new(None));
    let ns2 = netslot.clone();
    let out = simrt::run(&p.rt, p.seed, Duration::from_secs(120), move || async move {
        let p = p2;
        let net = SimNet::new(p.net.clone(), trace);
        *ns2.lock().unwrap() = Some(net.clone());
        let k = EpKnobs::default();
        let pair = harness::pair(&net, p.seed, &k, &k);
        let (cconn, sconn) = harness::establish(&pair, &harness::default_url()).await?;
        let (closer, observer) = if p.client_closes { (cconn, sconn) } else { (sconn, cconn) };
        let app = App::start(observer.clone());
        for i in 0..p.streams_before {
            if let Ok(o) = closer.open_uni().await {
                if let Ok(mut s) = o.await {
                    let _ = s.write_all(format!("s{i}").as_bytes()).await;
                    let _ = s.finish().await;
                }
            }
        }
        tokio::time::sleep(Duration::from_micros(p.delay_us)).await;
        closer.close(wtransport::VarInt::try_from_u64(p.code).unwrap(), &harness::unhex(&p.reason_hex));
        let ended = app.wait_ended(Duration::from_secs(30)).await;
        let closed = tokio::time::timeout(Duration::from_secs(5), observer.closed()).await.ok();
        let log = std::mem::take(&mut *app.log.lock().unwrap());
        drop(pair);
        Ok::<_, String>((ended, log, closed))
    });
    sut::finish_exec(&mut ex, &netslot, trace);
    if !out.panics.is_empty() {
        ex.violation("C04/panic", out.panics.join(" | "));
        return ex;
    }
    match out.value {
        None => ex.violation("C04/run-did-not-finish", "exceeded 120 s simulated".into()),
        Some(Err(e)) => ex.violation("C04/setup", e),
        Some(Ok((ended, log, closed))) => {
            ex.nontrivial = true;
            let want = (p.code, harness::unhex(&p.reason_hex));
            if !ended {
                ex.violation("C04/termination-not-reported", format!("peer close({}, {} B): only {:?} returned within 30 s", p.code, want.1.len(), log.ended.iter().map(|e| e.0.clone()).collect::<Vec<_>>()));
            }
            for (who, e) in &log.ended {
                if sut::app_closed(e) != Some(want.clone()) {
                    ex.violation("C04/termination-misreported", format!("peer close({}, {:02x?}): {who} returned {e:?}", p.code, &want.1[..want.1.len().min(16)]));
                }
            }
            match closed {
                Some(e) if sut::app_closed(&e) == Some(want.clone()) => {}
                other => ex.violation("C04/closed-misreported", format!("peer close({}): Connection::closed() gave {other:?}", p.code)),
            }
        }
    }
    ex
}

pub struct C04E2E;

impl TypedScenario for C04E2E {
    type Plan = E2EPlan;
    fn name(&self) -> &'static str {
        "e2e-connection-close"
    }
    fn budget(&self, tier: Tier) -> usize {
        match tier {
            Tier::Quick => 4000,
            Tier::Thorough => 500_000,
        }
    }
    fn generate(&self, seed: u64, index: usize, _tier: Tier) -> E2EPlan {
        let mut rng = Rng::new(seed, "c04-e2e");
        let mut net = NetCfg::clean(rng.next_u64());
        net.lat_min_us = *rng.pick(&[200u64, 1_000, 10_000]);
        let len = *rng.pick(&[0usize, 1, 10, 100, 500, 1024, 1025, 1060]);
        E2EPlan {
            seed,
            rt: RtKnobs::from_rng(&mut rng),
            net,
            client_closes: index % 2 == 0,
            code: if rng.coin() { *rng.pick(&VARINT_CODES) } else { rng.range(0, rc::VARINT_MAX) },
            reason_hex: hex(&rng.bytes(len)),
            delay_us: *rng.pick(&[0u64, 100, 50_000]),
            streams_before: rng.usize(0, 3),
        }
    }
    fn execute(&self, plan: &E2EPlan, trace: bool) -> Exec {
        exec_e2e(plan, trace)
    }
}

pub fn def() -> PropertyDef {
    PropertyDef {
        id: "C04",
        scenarios: vec![Box::new(Typed(C04Raw)), Box::new(Typed(C04E2E))],
        rule: "raw-termination: after a valid session set-up the scripted raw peer (both roles, alternating) ends the session by: close capsule (32-bit code boundaries and random; valid UTF-8 reasons of 0..1024 bytes incl. multi-byte characters ending exactly at the limit; in a third of the runs the same DATA frame goes on with a reserved-type capsule of 3 or 1100 bytes or with a second close capsule - the first capsule's values count), clean FIN of the request stream, QUIC application close (62-bit code boundaries and random; arbitrary reason bytes), reset of the request stream, FIN inside a frame (a DATA frame, or a frame of unknown type cut after 0, 1, 63, 64, 65, 128 ... payload bytes), malformed capsules (payload shorter than 4 bytes, reason of 1025+ bytes, invalid UTF-8), and an incomplete capsule followed by a complete one; at a generated point of the session's life (idle, with open uni/bidi streams, after the pending accepts were cancelled and reissued, after ignorable GREASE/unknown elements). Oracle: the three pending calls and three calls issued afterwards all return ApplicationClosed with exactly the peer's code and reason bytes ((0,\"\") for the clean FIN); abrupt / malformed endings are reported as one and the same LocalH3Error on every call, never as ApplicationClosed; the code on the wire is H3_NO_ERROR for clean endings and the local error's code otherwise; streams opened before the ending were handed over. e2e-connection-close: a real peer calls Connection::close(code, reason); the other side's pending calls and closed() report exactly that code and reason. Every run is non-trivial; distinct = distinct plan hashes.",
        assumptions: vec![
            "the close capsule is written in one piece here (segmentation is C05's subject)",
            "raw peer + reference codec are harness code; current-thread runtime; fault-free network",
        ],
        real_components: vec!["wtransport (endpoint under test)", "wtransport-proto", "quinn", "quinn-proto", "rustls", "ring", "tokio scheduler + timer wheel (paused clock)"],
        stub_components: vec!["UDP sockets (SimNet)", "OS clock", "the peer: scripted raw quinn endpoint + reference codec (raw-termination)"],
    }
}
