//! C01 — stream bytes arrive exactly, in order, with framing invisible.
//!
//! E2E: real client <-> real server over SimNet. Every stream carries a keyed byte pattern,
//! so a misplaced, repeated, swallowed or leaked (preamble) byte is attributable.

use crate::core::*;
use crate::harness::{self, EpKnobs};
use crate::rng::{mix, Rng};
use crate::simnet::{NetCfg, SimNet};
use crate::simrt::{self, RtKnobs};
use serde::{Deserialize, Serialize};
use std::collections::HashMap;
use std::sync::{Arc, Mutex};
use std::time::Duration;
use tokio::io::{AsyncReadExt, AsyncWriteExt};
use tokio::sync::mpsc;
use wtransport::{Connection, RecvStream, SendStream};

#[derive(Serialize, Deserialize, Clone, Debug)]
pub struct WOp {
    pub n: usize,
    pub mode: u8,
    pub pause_us: u64,
}

#[derive(Serialize, Deserialize, Clone, Debug)]
pub struct ROp {
    pub buf: usize,
    pub mode: u8,
    pub pause_us: u64,
}

#[derive(Serialize, Deserialize, Clone, Debug)]
pub struct Flow {
    pub key: u64,
    pub len: usize,
    /// the reader does not start reading before this much simulated time has passed
    #[serde(default)]
    pub read_start_delay_us: u64,
    pub writes: Vec<WOp>,
    pub reads: Vec<ROp>,
    /// the receiver's per-stream window (used to place slice boundaries of vectored writes where
    /// the flow-control credit runs out)
    #[serde(default)]
    pub window: u64,
}

#[derive(Serialize, Deserialize, Clone, Debug)]
pub struct StreamPlan {
    pub opener_is_client: bool,
    pub bidi: bool,
    pub start_us: u64,
    pub fwd: Flow,
    pub back: Option<Flow>,
    /// bidi only: bit 0 = the opener, bit 1 = the acceptor joins the two halves into a
    /// `BiStream` and uses it through tokio's AsyncRead / AsyncWrite (split into halves)
    #[serde(default)]
    pub via_bistream: u8,
}

#[derive(Serialize, Deserialize, Clone, Debug)]
pub struct Plan {
    pub seed: u64,
    pub rt: RtKnobs,
    pub net: NetCfg,
    pub ck: EpKnobs,
    pub sk: EpKnobs,
    pub read_cap: usize,
    pub streams: Vec<StreamPlan>,
    /// scripted link events after establishment: (at µs, kind, duration µs);
    /// kind 0 = two-way partition, 1 = client->server cut, 2 = server->client cut,
    /// 3 = inbound stall at the server, 4 = inbound stall at the client, 5 = NAT rebind of the client
    #[serde(default)]
    pub link_events: Vec<(u64, u8, u64)>,
}

pub fn pattern(key: u64, len: usize) -> Vec<u8> {
    let mut v = Vec::with_capacity(len + 8);
    let mut i = 0u64;
    while v.len() < len {
        v.extend_from_slice(&mix(&[key, i]).to_le_bytes());
        i += 1;
    }
    v.truncate(len);
    v
}

fn gen_len(rng: &mut Rng, window: u64) -> usize {
    match rng.below(10) {
        0 => 0,
        1 => 1,
        2 => *rng.pick(&[2usize, 7, 8, 9, 63, 64, 65, 255, 256]),
        3 => *rng.pick(&[1199usize, 1200, 1201, 1350, 1452, 16383, 16384, 16385]),
        4 => rng.usize(1, 3000),
        5 | 6 => rng.usize(1, (window as usize).max(2)),
        7 => window as usize + rng.usize(0, 64) - 32.min(window as usize),
        _ => rng.usize(window as usize, 3 * window as usize + 100),
    }
}

fn gen_flow(rng: &mut Rng, window: u64, max_len: usize) -> Flow {
    let len = gen_len(rng, window).min(max_len);
    let mut writes = Vec::new();
    let mut left = len;
    let style = rng.below(4);
    // one flow in ten: the whole payload in vectored writes against a reader that starts late, so
    // the credit of the first window runs out at one of the slice boundaries
    let vectored_whole = rng.chance_pm(100) && len > 0;
    if vectored_whole {
        writes.push(WOp { n: len, mode: 3, pause_us: 0 });
        left = 0;
    }
    while left > 0 {
        let n = match style {
            0 => left,
            1 => rng.usize(1, left.min(64)),
            2 => rng.usize(1, left.min(4096)),
            _ => rng.usize(1, left),
        };
        // keep the op list bounded
        let n = if writes.len() >= 200 { left } else { n };
        writes.push(WOp {
            n,
            mode: rng.below(4) as u8,
            pause_us: if rng.chance_pm(150) { rng.range(1, 20_000) } else { 0 },
        });
        left -= n;
    }
    let nreads = rng.usize(1, 4);
    let reads = (0..nreads)
        .map(|_| ROp {
            buf: *rng.pick(&[1usize, 2, 3, 7, 64, 100, 1000, 1200, 4096, 16384, 65536]),
            mode: rng.below(3) as u8,
            pause_us: if rng.chance_pm(200) { rng.range(1, 30_000) } else { 0 },
        })
        .collect();
    Flow { key: rng.next_u64(), len, read_start_delay_us: if vectored_whole { rng.range(20_000, 200_000) } else { 0 }, writes, reads, window }
}

pub fn gen_plan(seed: u64, faulty: bool, tier: Tier) -> Plan {
    gen_plan_mode(seed, faulty, tier, false)
}

/// `force_residue`: always the "credit residue" mode (see below).
pub fn gen_plan_mode(seed: u64, faulty: bool, tier: Tier, force_residue: bool) -> Plan {
    let mut rng = Rng::new(seed, "c01");
    let rt = RtKnobs::from_rng(&mut rng);
    let mut ck = EpKnobs::random(&mut rng);
    let mut sk = EpKnobs::random(&mut rng);
    // small windows make "several flow-control windows" cheap
    if rng.coin() {
        ck.stream_recv_window = *rng.pick(&[4096, 8192]);
        sk.stream_recv_window = *rng.pick(&[4096, 8192]);
    }
    let mut net = NetCfg::clean(rng.next_u64());
    net.lat_min_us = *rng.pick(&[200u64, 1_000, 5_000, 20_000]);
    net.lat_jitter_us = *rng.pick(&[0u64, 0, 500, 5_000]);
    if faulty {
        net.drop_pm = *rng.pick(&[0u32, 5, 20, 50]);
        net.dup_pm = *rng.pick(&[0u32, 5, 20]);
        net.reorder_pm = *rng.pick(&[0u32, 10, 50]);
        net.reorder_extra_us = rng.range(1_000, 30_000);
        net.corrupt_pm = *rng.pick(&[0u32, 0, 5]);
        if !net.has_faults() {
            net.drop_pm = 20;
        }
        net.fault_until_us = Some(30_000_000);
    }
    let nstreams = match tier {
        Tier::Quick => rng.usize(1, 6),
        Tier::Thorough => rng.usize(1, 12),
    };
    let max_len = 200_000;
    let mut counts: HashMap<(bool, bool), u64> = HashMap::new();
    let mut streams: Vec<StreamPlan> = Vec::new();
    for _ in 0..nstreams {
        let opener_is_client = rng.coin();
        let bidi = rng.coin();
        // the acceptor's limit bounds how many the opener may have open; the CONNECT
        // stream takes one client-bidi slot
        let limit = {
            let acc = if opener_is_client { &sk } else { &ck };
            let l = if bidi { acc.max_bi } else { acc.max_uni };
            if opener_is_client && bidi {
                l - 1
            } else {
                l
            }
        };
        let c = counts.entry((opener_is_client, bidi)).or_insert(0);
        if *c >= limit {
            continue;
        }
        *c += 1;
        let fwd_window = if opener_is_client { sk.stream_recv_window } else { ck.stream_recv_window };
        let back_window = if opener_is_client { ck.stream_recv_window } else { sk.stream_recv_window };
        let fwd = gen_flow(&mut rng, fwd_window, max_len);
        let back = if bidi { Some(gen_flow(&mut rng, back_window, max_len)) } else { None };
        streams.push(StreamPlan {
            opener_is_client,
            bidi,
            start_us: if rng.coin() { 0 } else { rng.range(0, 50_000) },
            fwd,
            back,
            via_bistream: if bidi && rng.chance_pm(300) { rng.range(1, 3) as u8 } else { 0 },
        });
    }
    if streams.is_empty() {
        let fwd = gen_flow(&mut rng, sk.stream_recv_window, max_len);
        streams.push(StreamPlan { opener_is_client: true, bidi: false, start_us: 0, fwd, back: None, via_bistream: 0 });
    }
    let read_cap = if rng.chance_pm(250) { rng.usize(1, 3) } else { 0 };
    // "credit residue" mode: a bulk stream that is not read for a while eats the acceptor's
    // *connection* window down to a residue of 0..120 bytes, then small streams are opened: their
    // preamble and first bytes have to squeeze through whatever credit is left
    if force_residue || rng.chance_pm(150) {
        let opener_is_client = rng.coin();
        let w = *rng.pick(&[4096u64, 8192]);
        {
            let acc = if opener_is_client { &mut sk } else { &mut ck };
            acc.stream_recv_window = w;
            acc.recv_window = w;
        }
        streams.clear();
        let bulk_len = (w as usize).saturating_sub(rng.usize(0, 120));
        let mut bulk = gen_flow(&mut rng, w, max_len);
        bulk.len = bulk_len;
        bulk.writes = vec![WOp { n: bulk_len, mode: 1, pause_us: 0 }];
        bulk.read_start_delay_us = rng.range(150_000, 400_000);
        streams.push(StreamPlan { opener_is_client, bidi: false, start_us: 0, fwd: bulk, back: None, via_bistream: 0 });
        for _ in 0..rng.usize(1, 3) {
            let bidi = rng.coin();
            let mut fwd = gen_flow(&mut rng, 64, 300);
            fwd.len = fwd.len.max(1);
            if fwd.writes.is_empty() {
                fwd.writes = vec![WOp { n: fwd.len, mode: rng.below(3) as u8, pause_us: 0 }];
            }
            let back = if bidi { Some(gen_flow(&mut rng, 64, 300)) } else { None };
            streams.push(StreamPlan { opener_is_client, bidi, start_us: rng.range(40_000, 120_000), fwd, back, via_bistream: 0 });
        }
    }
    // partitions that heal, slow nodes and a NAT rebind (fault batch only; every window is far
    // shorter than the 30 s idle timeout, so the transport is required to recover)
    let mut link_events = Vec::new();
    if faulty {
        for _ in 0..rng.usize(0, 3) {
            let kind = rng.below(6) as u8;
            let dur = match kind {
                5 => 0,
                3 | 4 => rng.range(5_000, 400_000),
                _ => rng.range(20_000, 4_000_000),
            };
            link_events.push((rng.range(0, 600_000), kind, dur));
        }
        link_events.sort();
    }
    Plan { seed, rt, net, ck, sk, read_cap, streams, link_events }
}

#[derive(Debug)]
enum FlowResult {
    Ok { bytes: usize },
    ConnLost(String),
    Bad(String, String), // class, detail
}

/// Cut points (relative to the chunk) for a vectored write of `chunk_len` bytes starting at stream
/// offset `off`: where the receiver's window ends (with and without the 3-byte preamble counted)
/// and one more derived from the flow key.
fn vectored_cuts(flow: &Flow, off: usize, chunk_len: usize) -> Vec<usize> {
    let mut cuts = Vec::new();
    let w = flow.window as usize;
    if w > 0 {
        for pre in [3usize, 0, 4, 6, 10] {
            // credit boundaries repeat every window once the reader keeps up; the first one matters most
            if w > pre + off && w - pre - off < chunk_len {
                cuts.push(w - pre - off);
            }
        }
    }
    if chunk_len > 1 {
        cuts.push(1 + (mix(&[flow.key, off as u64]) as usize) % (chunk_len - 1));
    }
    cuts.sort();
    cuts.dedup();
    cuts.truncate(3);
    cuts
}

async fn write_vectored_all<W: tokio::io::AsyncWrite + Unpin>(w: &mut W, chunk: &[u8], cuts: &[usize]) -> Result<(), String> {
    let mut done = 0usize;
    while done < chunk.len() {
        // the slices of what is left, cut at the same absolute positions
        let mut bounds: Vec<usize> = cuts.iter().copied().filter(|c| *c > done && *c < chunk.len()).collect();
        bounds.push(chunk.len());
        let mut slices = Vec::new();
        let mut start = done;
        for b in bounds {
            slices.push(std::io::IoSlice::new(&chunk[start..b]));
            start = b;
        }
        match AsyncWriteExt::write_vectored(w, &slices).await {
            Ok(0) => return Err("write_vectored returned 0".into()),
            Ok(n) if done + n > chunk.len() => return Err(format!("write_vectored returned {n} for {} bytes offered", chunk.len() - done)),
            Ok(n) => done += n,
            Err(e) => return Err(format!("{e:?}")),
        }
    }
    Ok(())
}

async fn write_flow(send: &mut SendStream, flow: &Flow) -> Result<(), FlowResult> {
    let data = pattern(flow.key, flow.len);
    let mut off = 0;
    for op in &flow.writes {
        let chunk = &data[off..off + op.n];
        let res: Result<(), String> = match op.mode {
            0 => {
                let mut done = 0;
                let mut r = Ok(());
                while done < chunk.len() {
                    match send.write(&chunk[done..]).await {
                        Ok(0) => {
                            r = Err("write returned 0".to_string());
                            break;
                        }
                        Ok(n) => done += n,
                        Err(e) => {
                            r = Err(format!("{e:?}"));
                            break;
                        }
                    }
                }
                r
            }
            1 => send.write_all(chunk).await.map_err(|e| format!("{e:?}")),
            3 => write_vectored_all(send, chunk, &vectored_cuts(flow, off, chunk.len())).await,
            _ => AsyncWriteExt::write_all(send, chunk).await.map_err(|e| format!("{e:?}")),
        };
        if let Err(e) = res {
            return Err(classify_io(&e, "write"));
        }
        off += op.n;
        if op.pause_us > 0 {
            tokio::time::sleep(Duration::from_micros(op.pause_us)).await;
        }
    }
    match send.finish().await {
        Ok(()) => Ok(()),
        Err(e) => Err(classify_io(&format!("{e:?}"), "finish")),
    }
}

/// The same flow through tokio's traits on any object (used for `BiStream`).
async fn write_flow_io<W: tokio::io::AsyncWrite + Unpin>(w: &mut W, flow: &Flow) -> Result<(), FlowResult> {
    let data = pattern(flow.key, flow.len);
    let mut off = 0;
    for op in &flow.writes {
        let chunk = &data[off..off + op.n];
        let res: Result<(), String> = if op.mode == 0 {
            let mut done = 0;
            let mut r = Ok(());
            while done < chunk.len() {
                match AsyncWriteExt::write(w, &chunk[done..]).await {
                    Ok(0) => {
                        r = Err("write returned 0".to_string());
                        break;
                    }
                    Ok(n) => done += n,
                    Err(e) => {
                        r = Err(format!("{e:?}"));
                        break;
                    }
                }
            }
            r
        } else if op.mode == 3 {
            write_vectored_all(w, chunk, &vectored_cuts(flow, off, chunk.len())).await
        } else {
            AsyncWriteExt::write_all(w, chunk).await.map_err(|e| format!("{e:?}"))
        };
        if let Err(e) = res {
            return Err(classify_io(&e, "BiStream write"));
        }
        off += op.n;
        if op.pause_us > 0 {
            tokio::time::sleep(Duration::from_micros(op.pause_us)).await;
        }
    }
    let _ = AsyncWriteExt::flush(w).await;
    match AsyncWriteExt::shutdown(w).await {
        Ok(()) => Ok(()),
        Err(e) => Err(classify_io(&format!("{e:?}"), "BiStream shutdown")),
    }
}

async fn read_flow_io<R: tokio::io::AsyncRead + Unpin>(r: &mut R, flow: &Flow) -> FlowResult {
    if flow.read_start_delay_us > 0 {
        tokio::time::sleep(Duration::from_micros(flow.read_start_delay_us)).await;
    }
    let expected = pattern(flow.key, flow.len);
    let mut off = 0usize;
    let mut i = 0usize;
    let mut pauses_left = 40;
    loop {
        let op = &flow.reads[i % flow.reads.len()];
        i += 1;
        let remaining = expected.len() - off.min(expected.len());
        let mut buf = vec![0u8; op.buf.max(1)];
        let got: Result<usize, String> = if op.mode == 1 && remaining > 0 {
            let k = op.buf.max(1).min(remaining);
            AsyncReadExt::read_exact(r, &mut buf[..k]).await.map_err(|e| format!("BiStream read_exact: {e:?}"))
        } else {
            AsyncReadExt::read(r, &mut buf).await.map_err(|e| format!("BiStream read: {e:?}"))
        };
        match got {
            Err(e) => {
                return if e.contains("NotConnected") || e.contains("NotConn") || e.contains("not connected") {
                    FlowResult::ConnLost(e)
                } else {
                    FlowResult::Bad("C01/unexpected-stream-error".into(), e)
                };
            }
            Ok(0) => {
                if off != expected.len() {
                    return FlowResult::Bad("C01/truncated".into(), format!("BiStream: end-of-stream after {off} of {} bytes", expected.len()));
                }
                let mut b = [0u8; 8];
                return match AsyncReadExt::read(r, &mut b).await {
                    Ok(0) => FlowResult::Ok { bytes: off },
                    other => FlowResult::Bad("C01/data-after-eof".into(), format!("BiStream: read after end-of-stream returned {other:?}")),
                };
            }
            Ok(n) => {
                if off + n > expected.len() {
                    return FlowResult::Bad("C01/extra-bytes".into(), format!("BiStream: received {} bytes beyond the {} written", off + n - expected.len(), expected.len()));
                }
                if buf[..n] != expected[off..off + n] {
                    let pos = (0..n).find(|&j| buf[j] != expected[off + j]).unwrap();
                    return FlowResult::Bad("C01/bytes-mismatch".into(), format!("BiStream: stream byte {} is {:#04x}, expected {:#04x} (len {})", off + pos, buf[pos], expected[off + pos], expected.len()));
                }
                off += n;
            }
        }
        if op.pause_us > 0 && pauses_left > 0 {
            pauses_left -= 1;
            tokio::time::sleep(Duration::from_micros(op.pause_us)).await;
        }
    }
}

impl FlowResult {
    fn kind(&self) -> &'static str {
        match self {
            FlowResult::Ok { .. } => "ok",
            FlowResult::ConnLost(_) => "connlost",
            FlowResult::Bad(..) => "bad",
        }
    }
}

fn classify_io(e: &str, what: &str) -> FlowResult {
    if e.contains("NotConnected") || e.contains("not connected") || e.contains("NotConn") {
        FlowResult::ConnLost(format!("{what}: {e}"))
    } else {
        FlowResult::Bad("C01/unexpected-stream-error".into(), format!("{what}: {e}"))
    }
}

async fn read_flow(recv: &mut RecvStream, flow: &Flow) -> FlowResult {
    if flow.read_start_delay_us > 0 {
        tokio::time::sleep(Duration::from_micros(flow.read_start_delay_us)).await;
    }
    let expected = pattern(flow.key, flow.len);
    let mut off = 0usize;
    let mut i = 0usize;
    // bounded number of reader pauses per flow: an application that sleeps 30 ms per
    // 1-byte read would (legitimately) run into the idle timeout instead of C01
    let mut pauses_left = 40;
    loop {
        let op = &flow.reads[i % flow.reads.len()];
        i += 1;
        let remaining = expected.len() - off.min(expected.len());
        let mut buf = vec![0u8; op.buf.max(1)];
        // mode 1 = read_exact of a size the application knows to be available
        let got: Result<Option<usize>, String> = if op.mode == 1 && remaining > 0 {
            let k = op.buf.max(1).min(remaining);
            match recv.read_exact(&mut buf[..k]).await {
                Ok(()) => Ok(Some(k)),
                Err(e) => Err(format!("read_exact: {e:?}")),
            }
        } else if op.mode == 2 {
            match AsyncReadExt::read(recv, &mut buf).await {
                Ok(0) => Ok(None),
                Ok(n) => Ok(Some(n)),
                Err(e) => Err(format!("tokio read: {e:?}")),
            }
        } else {
            recv.read(&mut buf).await.map_err(|e| format!("read: {e:?}"))
        };
        match got {
            Err(e) => {
                return if e.contains("NotConnected") || e.contains("NotConn") || e.contains("not connected") {
                    FlowResult::ConnLost(e)
                } else {
                    FlowResult::Bad("C01/unexpected-stream-error".into(), e)
                };
            }
            Ok(Some(0)) => {
                return FlowResult::Bad("C01/zero-length-read".into(), format!("read returned Some(0) at offset {off}"));
            }
            Ok(Some(n)) => {
                if off + n > expected.len() {
                    return FlowResult::Bad(
                        "C01/extra-bytes".into(),
                        format!("received {} bytes beyond the {} written", off + n - expected.len(), expected.len()),
                    );
                }
                if buf[..n] != expected[off..off + n] {
                    let pos = (0..n).find(|&j| buf[j] != expected[off + j]).unwrap();
                    return FlowResult::Bad(
                        "C01/bytes-mismatch".into(),
                        format!(
                            "stream byte {} is {:#04x}, expected {:#04x} (len {}); first bytes got {:02x?} want {:02x?}",
                            off + pos,
                            buf[pos],
                            expected[off + pos],
                            expected.len(),
                            &buf[..n.min(8)],
                            &expected[off..(off + 8).min(expected.len())]
                        ),
                    );
                }
                off += n;
            }
            Ok(None) => {
                if off != expected.len() {
                    return FlowResult::Bad(
                        "C01/truncated".into(),
                        format!("end-of-stream after {off} of {} bytes", expected.len()),
                    );
                }
                // end-of-stream is sticky
                let mut b = [0u8; 8];
                match recv.read(&mut b).await {
                    Ok(None) => {}
                    other => {
                        return FlowResult::Bad(
                            "C01/data-after-eof".into(),
                            format!("read after end-of-stream returned {other:?}"),
                        )
                    }
                }
                return FlowResult::Ok { bytes: off };
            }
        }
        if op.pause_us > 0 && pauses_left > 0 {
            pauses_left -= 1;
            tokio::time::sleep(Duration::from_micros(op.pause_us)).await;
        }
    }
}

type Registry = Arc<Mutex<HashMap<(bool, u64), usize>>>; // (opener_is_client, stream id) -> index

async fn lookup(reg: &Registry, key: (bool, u64)) -> Option<usize> {
    for _ in 0..2000 {
        if let Some(i) = reg.lock().unwrap().get(&key).copied() {
            return Some(i);
        }
        tokio::time::sleep(Duration::from_micros(500)).await;
    }
    None
}

fn spawn_acceptors(
    net: SimNet,
    conn: Connection,
    acceptor_is_client: bool,
    plan: Arc<Plan>,
    reg: Registry,
    tx: mpsc::UnboundedSender<FlowResult>,
) {
    // streams accepted here were opened by the *other* side
    let opener_is_client = !acceptor_is_client;
    {
        let (conn, plan, reg, tx, net) = (conn.clone(), plan.clone(), reg.clone(), tx.clone(), net.clone());
        tokio::spawn(async move {
            loop {
                let Ok(mut recv) = conn.accept_uni().await else { break };
                let (plan, reg, tx, net) = (plan.clone(), reg.clone(), tx.clone(), net.clone());
                tokio::spawn(async move {
                    let id = recv.id().into_u64();
                    net.note(&format!("accepted-uni id={id}"));
                    let Some(i) = lookup(&reg, (opener_is_client, id)).await else {
                        let _ = tx.send(FlowResult::Bad(
                            "C01/invented-stream".into(),
                            format!("accept_uni returned stream {id} that nobody opened"),
                        ));
                        return;
                    };
                    let r = read_flow(&mut recv, &plan.streams[i].fwd).await;
                    net.note(&format!("flow-done idx={i} fwd {}", r.kind()));
                    let _ = tx.send(r);
                });
            }
        });
    }
    tokio::spawn(async move {
        loop {
            let Ok((mut send, mut recv)) = conn.accept_bi().await else { break };
            let (plan, reg, tx, net) = (plan.clone(), reg.clone(), tx.clone(), net.clone());
            tokio::spawn(async move {
                let id = recv.id().into_u64();
                net.note(&format!("accepted-bi id={id}"));
                let Some(i) = lookup(&reg, (opener_is_client, id)).await else {
                    let _ = tx.send(FlowResult::Bad(
                        "C01/invented-stream".into(),
                        format!("accept_bi returned stream {id} that nobody opened"),
                    ));
                    return;
                };
                let sp = &plan.streams[i];
                let back = sp.back.as_ref().expect("bidi has back flow");
                let tx2 = tx.clone();
                if sp.via_bistream & 2 != 0 {
                    let (mut rh, mut wh) = tokio::io::split(wtransport::stream::BiStream::join((send, recv)));
                    let w = async {
                        if let Err(r) = write_flow_io(&mut wh, back).await {
                            let _ = tx2.send(r);
                        }
                    };
                    let r = async {
                        let r = read_flow_io(&mut rh, &sp.fwd).await;
                        net.note(&format!("flow-done idx={i} fwd {}", r.kind()));
                        let _ = tx.send(r);
                    };
                    tokio::join!(w, r);
                    return;
                }
                let w = async {
                    if let Err(r) = write_flow(&mut send, back).await {
                        let _ = tx2.send(r);
                    }
                };
                let r = async {
                    let r = read_flow(&mut recv, &sp.fwd).await;
                    net.note(&format!("flow-done idx={i} fwd {}", r.kind()));
                    let _ = tx.send(r);
                };
                tokio::join!(w, r);
            });
        }
    });
}

async fn open_stream(
    net: SimNet,
    conn: Connection,
    idx: usize,
    plan: Arc<Plan>,
    reg: Registry,
    tx: mpsc::UnboundedSender<FlowResult>,
) {
    let sp = &plan.streams[idx];
    if sp.start_us > 0 {
        tokio::time::sleep(Duration::from_micros(sp.start_us)).await;
    }
    if sp.bidi {
        let opened = async { conn.open_bi().await.map_err(|e| format!("{e:?}"))?.await.map_err(|e| format!("{e:?}")) };
        match opened.await {
            Ok((mut send, mut recv)) => {
                reg.lock().unwrap().insert((sp.opener_is_client, send.id().into_u64()), idx);
                net.note(&format!("opened-bi idx={idx} id={}", send.id().into_u64()));
                let tx2 = tx.clone();
                if sp.via_bistream & 1 != 0 {
                    let (mut rh, mut wh) = tokio::io::split(wtransport::stream::BiStream::join((send, recv)));
                    let w = async {
                        if let Err(r) = write_flow_io(&mut wh, &sp.fwd).await {
                            let _ = tx2.send(r);
                        }
                    };
                    let r = async {
                        let r = read_flow_io(&mut rh, sp.back.as_ref().unwrap()).await;
                        net.note(&format!("flow-done idx={idx} back {}", r.kind()));
                        let _ = tx.send(r);
                    };
                    tokio::join!(w, r);
                    return;
                }
                let w = async {
                    if let Err(r) = write_flow(&mut send, &sp.fwd).await {
                        let _ = tx2.send(r);
                    }
                };
                let r = async {
                    let r = read_flow(&mut recv, sp.back.as_ref().unwrap()).await;
                    net.note(&format!("flow-done idx={idx} back {}", r.kind()));
                    let _ = tx.send(r);
                };
                tokio::join!(w, r);
            }
            Err(e) => {
                let _ = tx.send(classify_io(&e, "open_bi"));
            }
        }
    } else {
        let opened = async { conn.open_uni().await.map_err(|e| format!("{e:?}"))?.await.map_err(|e| format!("{e:?}")) };
        match opened.await {
            Ok(mut send) => {
                reg.lock().unwrap().insert((sp.opener_is_client, send.id().into_u64()), idx);
                net.note(&format!("opened-uni idx={idx} id={}", send.id().into_u64()));
                if let Err(r) = write_flow(&mut send, &sp.fwd).await {
                    let _ = tx.send(r);
                }
            }
            Err(e) => {
                let _ = tx.send(classify_io(&e, "open_uni"));
            }
        }
    }
}

pub fn execute(plan: &Plan, trace: bool) -> Exec {
    let mut ex = Exec::new();
    let plan = Arc::new(plan.clone());
    let p2 = plan.clone();
    let faulty = plan.net.has_faults();
    let netslot: Arc<Mutex<Option<SimNet>>> = Arc::new(Mutex::new(None));
    let ns2 = netslot.clone();
    let out = simrt::run(&plan.rt, plan.seed, Duration::from_secs(120), move || async move {
        let plan = p2;
        let net = SimNet::new(plan.net.clone(), trace);
        *ns2.lock().unwrap() = Some(net.clone());
        let pair = harness::pair(&net, plan.seed, &plan.ck, &plan.sk);
        let (cconn, sconn) = match harness::establish(&pair, &harness::default_url()).await {
            Ok(x) => x,
            Err(e) => return Err(format!("establish: {e}")),
        };
        net.note("established");
        // short reads on every protocol-level read from here on (buggify; always legal)
        wtransport::verif::set_read_cap(plan.read_cap);
        if !plan.link_events.is_empty() {
            let (net2, cs, ss, evs) = (net.clone(), pair.client_sock.clone(), pair.server_sock.clone(), plan.link_events.clone());
            tokio::spawn(async move {
                let t0 = tokio::time::Instant::now();
                let mut rebinds = 0u16;
                for (at, kind, dur) in evs {
                    tokio::time::sleep_until(t0 + Duration::from_micros(at)).await;
                    let d = Duration::from_micros(dur);
                    match kind {
                        0 => {
                            net2.partition(&cs, &ss, true);
                            tokio::time::sleep(d).await;
                            net2.partition(&cs, &ss, false);
                        }
                        1 => {
                            net2.set_block(&cs, &ss, true);
                            tokio::time::sleep(d).await;
                            net2.set_block(&cs, &ss, false);
                        }
                        2 => {
                            net2.set_block(&ss, &cs, true);
                            tokio::time::sleep(d).await;
                            net2.set_block(&ss, &cs, false);
                        }
                        3 => net2.stall_inbound(&ss, d),
                        4 => net2.stall_inbound(&cs, d),
                        _ => {
                            rebinds += 1;
                            net2.rebind(&cs, format!("10.0.7.{}:{}", rebinds, 40000 + rebinds).parse().unwrap());
                        }
                    }
                }
            });
        }
        let reg: Registry = Arc::new(Mutex::new(HashMap::new()));
        let (tx, mut rx) = mpsc::unbounded_channel();
        spawn_acceptors(net.clone(), cconn.clone(), true, plan.clone(), reg.clone(), tx.clone());
        spawn_acceptors(net.clone(), sconn.clone(), false, plan.clone(), reg.clone(), tx.clone());
        let mut expected_flows = 0;
        for (i, sp) in plan.streams.iter().enumerate() {
            expected_flows += if sp.bidi { 2 } else { 1 };
            let conn = if sp.opener_is_client { cconn.clone() } else { sconn.clone() };
            tokio::spawn(open_stream(net.clone(), conn, i, plan.clone(), reg.clone(), tx.clone()));
        }
        drop(tx);
        let mut results = Vec::new();
        while results.len() < expected_flows {
            match rx.recv().await {
                Some(r) => {
                    let stop = !matches!(r, FlowResult::Ok { .. });
                    results.push(r);
                    if stop {
                        break;
                    }
                }
                None => break,
            }
        }
        drop(pair);
        Ok((results, expected_flows))
    });
    if let Some(net) = netslot.lock().unwrap().take() {
        ex.net = net.stats();
        ex.trace_hash = net.hash();
        ex.sim_us = net.now_us_at_end();
        if trace {
            ex.trace = net.take_trace();
        }
    }
    ex.probe("loop_iters", out.loop_iters);
    ex.probe("torn_read_futures", out.torn_reads);
    ex.fault("short_read_cap_runs", (plan.read_cap > 0) as u64);
    ex.probe("streams_used_through_bistream", plan.streams.iter().filter(|s| s.via_bistream > 0).count() as u64);
    if !out.panics.is_empty() {
        ex.violation("C01/panic", out.panics.join(" | "));
        return ex;
    }
    match out.value {
        None => {
            if faulty {
                ex.inconclusive("simulated-time limit under faults");
            } else {
                ex.violation("C01/liveness", "streams did not complete within 120 s simulated on a fault-free network".into());
            }
        }
        Some(Err(e)) => {
            if faulty {
                ex.inconclusive("handshake failed under faults");
            } else {
                ex.violation("C01/establish", e);
            }
        }
        Some(Ok((results, expected))) => {
            let mut ok = 0;
            let mut bytes = 0;
            for r in &results {
                match r {
                    FlowResult::Ok { bytes: b } => {
                        ok += 1;
                        bytes += b;
                    }
                    FlowResult::ConnLost(why) => {
                        if faulty {
                            ex.inconclusive("connection lost under faults");
                        } else {
                            ex.violation("C01/connection-lost", why.clone());
                        }
                    }
                    FlowResult::Bad(class, detail) => ex.violation(class, detail.clone()),
                }
            }
            if matches!(ex.verdict, Verdict::Pass) && ok != expected {
                ex.violation("C01/missing-flow", format!("{ok} of {expected} flows completed"));
            }
            ex.probe("flows_verified", ok as u64);
            ex.probe("bytes_verified", bytes as u64);
            ex.nontrivial = ok > 0 && bytes > 0 && (!faulty || ex.net.faults_fired() > 0);
        }
    }
    ex
}

pub struct C01E2E {
    pub faulty: bool,
}

impl TypedScenario for C01E2E {
    type Plan = Plan;
    fn name(&self) -> &'static str {
        if self.faulty {
            "e2e-faults"
        } else {
            "e2e-clean"
        }
    }
    fn budget(&self, tier: Tier) -> usize {
        match tier {
            Tier::Quick => 6000,
            Tier::Thorough => 750_000,
        }
    }
    fn generate(&self, seed: u64, _index: usize, tier: Tier) -> Plan {
        gen_plan(seed, self.faulty, tier)
    }
    fn execute(&self, plan: &Plan, trace: bool) -> Exec {
        execute(plan, trace)
    }
    fn faulty(&self) -> bool {
        self.faulty
    }
    fn shrink(&self, plan: &Plan) -> Vec<Plan> {
        let v = serde_json::to_value(plan).unwrap();
        let mut c = Vec::new();
        c.extend(shrink_array(&v, "/streams", 1));
        c.extend(shrink_net(&v, "/net"));
        c.extend(shrink_array(&v, "/link_events", 0));
        c.extend(shrink_num(&v, "/read_cap", 0));
        for (i, s) in plan.streams.iter().enumerate() {
            c.extend(shrink_num(&v, &format!("/streams/{i}/start_us"), 0));
            if s.fwd.len > 0 {
                // shorter payload with a single write
                for target in [0usize, 1, s.fwd.len / 2] {
                    if target < s.fwd.len {
                        let mut p = plan.clone();
                        p.streams[i].fwd.len = target;
                        p.streams[i].fwd.writes = if target > 0 { vec![WOp { n: target, mode: 1, pause_us: 0 }] } else { vec![] };
                        c.push(serde_json::to_value(&p).unwrap());
                    }
                }
            }
            if let Some(b) = &s.back {
                for target in [0usize, b.len / 2] {
                    if target < b.len {
                        let mut p = plan.clone();
                        let bb = p.streams[i].back.as_mut().unwrap();
                        bb.len = target;
                        bb.writes = if target > 0 { vec![WOp { n: target, mode: 1, pause_us: 0 }] } else { vec![] };
                        c.push(serde_json::to_value(&p).unwrap());
                    }
                }
            }
        }
        c.into_iter().filter_map(|v| serde_json::from_value(v).ok()).collect()
    }
}


// ---- RAW: the preamble arrives in pieces (and in non-shortest varint forms) ------------------------

#[derive(Serialize, Deserialize, Clone, Debug)]
pub struct RawStream {
    pub bidi: bool,
    /// varint length used for the session id (1, 2, 4, 8)
    pub sid_len: usize,
    /// cut positions inside preamble + payload (ascending byte offsets); a quiescence gap follows each
    pub cuts: Vec<usize>,
    pub len: usize,
    pub key: u64,
}

#[derive(Serialize, Deserialize, Clone, Debug)]
pub struct RawPlan {
    pub base: crate::rawscript::Script,
    pub streams: Vec<RawStream>,
    pub close_code: u32,
}

pub fn exec_raw(p: &RawPlan, trace: bool) -> Exec {
    use crate::rawscript::*;
    use crate::refcodec as rc;
    let mut acts = valid_prologue(p.base.server_under_test);
    acts.push(Act::Gap);
    for (i, st) in p.streams.iter().enumerate() {
        let slot = 200 + i;
        let mut b = Vec::new();
        rc::put_varint(if st.bidi { rc::FRAME_WT_STREAM } else { rc::STREAM_WT_UNI }, &mut b);
        let session_id = if p.base.server_under_test { 4 * p.base.burn } else { 0 };
        rc::put_varint_len(session_id, st.sid_len.max(rc::varint_len(session_id)), &mut b);
        b.extend_from_slice(&pattern(st.key, st.len));
        acts.push(if st.bidi { Act::OpenBi { slot } } else { Act::OpenUni { slot } });
        let mut off = 0;
        for c in &st.cuts {
            let c = (*c).min(b.len());
            if c > off {
                acts.push(Act::Write { slot, hex: hex(&b[off..c]) });
                acts.push(Act::Gap);
                off = c;
            }
        }
        if off < b.len() {
            acts.push(Act::Write { slot, hex: hex(&b[off..]) });
        }
        acts.push(Act::Fin { slot });
    }
    acts.push(Act::Gap);
    acts.push(Act::Sleep { us: 200_000 });
    acts.push(close_capsule_act(p.close_code, b"c01"));
    let mut s = p.base.clone();
    s.acts = acts;
    s.settle_ms = 500;
    let (mut ex, obs) = run_script(&s, trace, "C01");
    let Some(obs) = obs else { return ex };
    ex.nontrivial = p.streams.iter().any(|s| !s.cuts.is_empty());
    let Some(app) = &obs.app else {
        ex.violation("C01/establish", format!("{:?}", obs.sut));
        return ex;
    };
    for st in &p.streams {
        let want = pattern(st.key, st.len);
        let got = if st.bidi { app.bi.values().any(|b| *b == want) } else { app.uni.values().any(|b| *b == want) };
        if !got {
            let seen: Vec<(usize, Vec<u8>)> = if st.bidi { app.bi.values() } else { app.uni.values() }.map(|b| (b.len(), b[..b.len().min(6)].to_vec())).collect();
            ex.violation(
                "C01/raw-preamble",
                format!(
                    "{} stream whose preamble (session id on {} bytes) and {}-byte payload arrived in pieces cut at {:?}: the application did not read exactly the payload; it read streams (len, first bytes) {:?}; errors {:?} {:?}; raw peer {:?}",
                    if st.bidi { "bidi" } else { "uni" },
                    st.sid_len,
                    st.len,
                    st.cuts,
                    seen,
                    app.uni_err,
                    app.bi_err,
                    obs.raw_close
                ),
            );
            return ex;
        }
    }
    let n_uni = p.streams.iter().filter(|s| !s.bidi).count();
    let n_bi = p.streams.len() - n_uni;
    if app.uni.len() + app.uni_err.len() != n_uni || app.bi.len() + app.bi_err.len() != n_bi {
        ex.violation("C01/invented-stream", format!("application was handed {} uni / {} bidi streams, the peer opened {n_uni} / {n_bi}", app.uni.len(), app.bi.len()));
    }
    ex
}

pub struct C01Raw;

impl TypedScenario for C01Raw {
    type Plan = RawPlan;
    fn name(&self) -> &'static str {
        "raw-preamble-segmentation"
    }
    fn budget(&self, tier: Tier) -> usize {
        match tier {
            Tier::Quick => 5000,
            Tier::Thorough => 750_000,
        }
    }
    fn generate(&self, seed: u64, index: usize, _tier: Tier) -> RawPlan {
        gen_raw_plan(seed, index, false)
    }
    fn execute(&self, plan: &RawPlan, trace: bool) -> Exec {
        exec_raw(plan, trace)
    }
    fn shrink(&self, plan: &RawPlan) -> Vec<RawPlan> {
        shrink_raw(plan)
    }
}

/// `paced`: every stream's preamble is cut at least once and the pieces are 6-15 s apart (the
/// peer paces its writes: an acceptor may wait for the rest of a preamble as long as it takes)
pub fn gen_raw_plan(seed: u64, index: usize, paced: bool) -> RawPlan {
    {
        let mut rng = Rng::new(seed, "c01-raw");
        let mut base = crate::rawscript::base_script(seed, index % 2 == 0);
        base.net.lat_min_us = *rng.pick(&[200u64, 1_000, 5_000]);
        base.read_cap = if rng.chance_pm(200) { rng.usize(1, 3) } else { 0 };
        // non-zero session ids (the CONNECT request is not on the first stream of the connection)
        base.burn = if base.server_under_test && rng.chance_pm(400) { *rng.pick(&[1u64, 2, 15, 16, 63, 64, 300]) } else { 0 };
        base.k.max_bi = 400;
        let n = rng.usize(1, 4);
        let streams = (0..n)
            .map(|_| {
                let sid_len = *rng.pick(&[1usize, 1, 2, 4, 8]);
                let len = *rng.pick(&[0usize, 1, 2, 9, 64, 1000, 5000]);
                let pre = 2 + sid_len;
                let ncuts = rng.usize(0, 3);
                let mut cuts: Vec<usize> = (0..ncuts).map(|_| if rng.chance_pm(800) { rng.usize(1, pre) } else { rng.usize(1, pre + len.max(1)) }).collect();
                if paced && !cuts.iter().any(|c| *c < pre) {
                    cuts.push(rng.usize(1, pre - 1));
                }
                cuts.sort();
                cuts.dedup();
                RawStream { bidi: rng.coin(), sid_len, cuts, len, key: rng.next_u64() }
            })
            .collect();
        if paced {
            base.long_gap_ms = *rng.pick(&[5_500u64, 6_000, 9_000, 15_000]);
        }
        RawPlan { base, streams, close_code: rng.next_u64() as u32 }
    }
}

pub fn shrink_raw(plan: &RawPlan) -> Vec<RawPlan> {
    {
        let v = serde_json::to_value(plan).unwrap();
        let mut c = shrink_array(&v, "/streams", 1);
        for i in 0..plan.streams.len() {
            c.extend(shrink_array(&v, &format!("/streams/{i}/cuts"), 0));
            c.extend(shrink_num(&v, &format!("/streams/{i}/len"), 1));
        }
        c.extend(shrink_num(&v, "/base/read_cap", 0));
        c.extend(shrink_num(&v, "/base/burn", 0));
        c.extend(shrink_num(&v, "/base/long_gap_ms", 0));
        c.into_iter().filter_map(|v| serde_json::from_value(v).ok()).collect()
    }
}

pub fn def() -> PropertyDef {
    PropertyDef {
        id: "C01",
        scenarios: vec![
            Box::new(Typed(C01E2E { faulty: false })),
            Box::new(Typed(C01E2E { faulty: true })),
            Box::new(Typed(C01Raw)),
        ],
        rule: "Each run: real wtransport client and server over the simulated network, 1-12 concurrent streams over the roles {client,server} x {uni, bidi (both directions)}, payload lengths boundary-biased from 0 to 3 flow-control windows (windows are per-run knobs), generated write partitions (write / write_all / tokio AsyncWrite incl. vectored writes whose slice boundaries sit where the receiver's window ends) and read partitions (read / read_exact / tokio AsyncRead, buffers 1 B..64 KiB) with pauses, a third of the bidirectional streams joined into a BiStream on either side and used through tokio's AsyncRead / AsyncWrite, optional 1-3 byte short-read cap on protocol-level reads; the fault batch adds loss / duplication / reordering / corruption for the first 30 s plus 0-3 scripted link events: two-way or one-way partitions of 20 ms-4 s that heal, inbound stalls of 5-400 ms at either node, NAT rebinds of the client. A run is non-trivial when the session was established, at least one flow was verified byte-for-byte to end-of-stream with >0 bytes and (fault sub-batch) at least one network fault fired; distinct = distinct plan hashes among those. raw-preamble-segmentation: the scripted raw peer (both roles; against the server the session id is 0, 4, 8, 60, 64, 252, 256 or 1200 - the CONNECT stream follows 0-300 burnt streams) opens 1-4 WebTransport uni / bidi streams whose preamble (type / signal + session id encoded on 1, 2, 4 or 8 bytes) and payload (0..5000 B) are written in 1-4 pieces with network quiescence between the pieces (cuts mostly inside the preamble), optionally under the short-read cap; the application must read exactly the payload of every stream and be handed nothing else.",
        assumptions: vec![
            "quinn, quinn-proto, rustls, ring and tokio are executed for real but trusted: a QUIC-level data loss would be attributed to wtransport until triaged",
            "parallelism is modelled as interleaving at await points on a current-thread runtime; data races inside tokio/quinn primitives are out of scope",
            "a run whose connection is killed by the injected faults is inconclusive, never a violation; liveness on a fault-free network is bounded by 120 s simulated",
        ],
        real_components: vec!["wtransport", "wtransport-proto", "quinn", "quinn-proto", "rustls", "ring", "tokio scheduler + timer wheel (paused clock)"],
        stub_components: vec!["UDP sockets (SimNet behind quinn::AsyncUdpSocket)", "OS clock (tokio paused clock)"],
    }
}
