//! C13 — unknown and GREASE protocol elements are skipped whole, with no side effects.
//!
//! Metamorphic, RAW against the running driver: a valid exchange X (SETTINGS, CONNECT,
//! one WebTransport stream, close capsule) and X' = X with unknown / GREASE frames, settings,
//! capsules and unidirectional streams inserted at every legal point. outcome(X') must equal
//! outcome(X) and the connection must survive until the capsule ends the session.

use crate::core::*;
use crate::rawscript::*;
use crate::refcodec as rc;
use crate::rng::Rng;
use crate::sut;
use serde::{Deserialize, Serialize};

#[derive(Serialize, Deserialize, Clone, Debug, PartialEq)]
pub enum Where {
    /// control stream, after SETTINGS, before the CONNECT exchange
    ControlEarly,
    /// control stream, after the session is established
    ControlLate,
    /// on the CONNECT stream before the HEADERS frame (request or response)
    BeforeHeaders,
    /// on the established session stream before the close capsule
    SessionStream,
    /// inside the SETTINGS payload
    InSettings,
    /// a new unidirectional stream, before the session exists
    UniEarly,
    /// a new unidirectional stream, after the session is established
    UniLate,
}

#[derive(Serialize, Deserialize, Clone, Debug)]
pub struct Ins {
    pub at: Where,
    /// frame type / stream type / setting id / capsule type
    pub ty: u64,
    /// force the type's varint length (1,2,4,8; 0 = shortest)
    pub ty_len: usize,
    pub payload_hex: String,
    /// for SessionStream: wrap as an unknown capsule inside a DATA frame instead of a frame
    pub as_capsule: bool,
    /// value for InSettings
    pub value: u64,
    pub fin: bool,
}

#[derive(Serialize, Deserialize, Clone, Debug)]
pub struct Plan {
    pub base: Script,
    pub ins: Vec<Ins>,
    pub close_code: u32,
    pub reason: String,
    pub wt_payload_hex: String,
}

fn known_frame_type(t: u64) -> bool {
    // types with a defined meaning (or a mandated error) in HTTP/3 + WebTransport; everything
    // else is "unknown" and must be ignored
    matches!(t, 0x00 | 0x01 | 0x02 | 0x03 | 0x04 | 0x05 | 0x06 | 0x07 | 0x08 | 0x09 | 0x0d | 0x41)
}

fn random_unknown(rng: &mut Rng, known: impl Fn(u64) -> bool) -> u64 {
    loop {
        let t = match rng.below(6) {
            // a known small value with other bits set above it: equal to a known type modulo
            // 2^8, 2^16 or 2^32 (a narrowing cast or a masked comparison would mistake it)
            5 => {
                let low = *rng.pick(&[0x00u64, 0x01, 0x02, 0x03, 0x04, 0x07, 0x08, 0x33, 0x41, 0x54, 0x2843, 0x2b60_3742, 0xc671_706a]);
                let shift = if low > 0xffff { 32 } else { *rng.pick(&[8u32, 16, 32, 32, 32]) };
                (rng.range(1, (1 << (62 - shift)) - 1) << shift) | low
            }
            0 => rng.range(0x0a, 0x3f),
            1 => rng.range(0x40, 0x3fff),
            2 => rng.range(0x4000, 0x3fff_ffff),
            3 => rng.range(0x4000_0000, rc::VARINT_MAX),
            _ => rng.range(0x0e, 0x200),
        };
        if !known(t) && !rc::is_grease(t) {
            return t;
        }
    }
}

fn random_grease(rng: &mut Rng) -> u64 {
    // N chosen so the type needs a 1-, 2-, 4- or 8-byte varint
    let n = match rng.below(4) {
        0 => rng.range(0, 0),
        1 => rng.range(1, 500),
        2 => rng.range(600, 30_000_000),
        _ => rng.range(40_000_000, (rc::VARINT_MAX - 0x21) / 0x1f),
    };
    rc::grease(n)
}

fn gen_payload(rng: &mut Rng) -> Vec<u8> {
    let len = match rng.below(8) {
        0 => 0,
        1 => 1,
        2 => rng.usize(2, 16),
        3 => rng.usize(16, 300),
        4 => *rng.pick(&[63usize, 64, 65, 16383 % 4096, 4095, 4096]),
        5 => rng.usize(300, 4096),
        _ => rng.usize(0, 64),
    };
    match rng.below(4) {
        0 => rng.bytes(len),
        1 => vec![0u8; len],
        2 => {
            // a payload that itself looks like frames: empty HEADERS, empty DATA, SETTINGS,
            // a close capsule in a DATA frame, a WebTransport signal
            let mut p = Vec::new();
            while p.len() < len {
                match rng.below(5) {
                    0 => p.extend_from_slice(&[0x01, 0x00]),
                    1 => p.extend_from_slice(&[0x00, 0x00]),
                    2 => p.extend_from_slice(&rc::frame(rc::FRAME_SETTINGS, &rc::settings_payload(&[(rc::SET_H3_DATAGRAM, 1)]))),
                    3 => p.extend_from_slice(&rc::frame(rc::FRAME_DATA, &rc::close_capsule(0xdead, b"fake"))),
                    _ => p.extend_from_slice(&rc::wt_bidi_signal(0)),
                }
            }
            p.truncate(len);
            p
        }
        _ => {
            // a valid varint (what GOAWAY / MAX_PUSH_ID / CANCEL_PUSH carry)
            rc::varint(rng.range(0, 1000) * 4)
        }
    }
}

pub fn gen_plan(seed: u64, index: usize, _tier: Tier) -> Plan {
    let mut rng = Rng::new(seed, "c13");
    let server_under_test = index % 2 == 0;
    let mut base = base_script(seed, server_under_test);
    base.net.lat_min_us = *rng.pick(&[200u64, 1_000, 5_000]);
    base.read_cap = if rng.chance_pm(150) { rng.usize(1, 3) } else { 0 };
    let n = match rng.below(5) {
        0 => 0, // the base exchange itself (reference run)
        1 | 2 => 1,
        3 => rng.usize(2, 3),
        _ => rng.usize(4, 8),
    };
    // one run in eight: the endpoint allows 6 concurrent uni streams and the peer opens 8-14
    // uni streams of unknown type, leaving them all open: "any number" of ignored streams must
    // not use up what the session's own streams need
    let flood = rng.chance_pm(125);
    if flood {
        base.k.max_uni = 6;
    }
    let n = if flood { rng.usize(8, 14) } else { n };
    // one run in eight: 9-40 ignorable elements at one and the same place ("any number")
    let many: Option<Where> = if !flood && rng.chance_pm(125) { Some(rng.pick(&[Where::BeforeHeaders, Where::ControlEarly, Where::ControlLate, Where::SessionStream]).clone()) } else { None };
    let n = if many.is_some() { rng.usize(9, 40) } else { n };
    let mut ins = Vec::new();
    for _ in 0..n {
        let at = if let Some(w) = &many { w.clone() } else if flood { rng.pick(&[Where::UniEarly, Where::UniLate]).clone() } else { rng.pick(&[Where::ControlEarly, Where::ControlLate, Where::BeforeHeaders, Where::SessionStream, Where::InSettings, Where::UniEarly, Where::UniLate]).clone() };
        let grease = rng.chance_pm(if many.is_some() { 800 } else { 350 });
        let (ty, value) = match at {
            Where::InSettings => {
                let known = |t: u64| matches!(t, 0x00 | 0x01 | 0x02 | 0x03 | 0x04 | 0x05 | 0x06 | 0x07 | 0x08 | 0x33) || t == rc::SET_ENABLE_WEBTRANSPORT || t == rc::SET_WT_MAX_SESSIONS || t == 0x2b603743 || t == 0xc671706b;
                // the value of an ignored setting is arbitrary: half of them are numbers that mean
                // something elsewhere (setting identifiers, reserved ids, booleans, GREASE forms)
                let value = if rng.coin() {
                    *rng.pick(&[0u64, 1, 2, 3, 4, 5, 6, 7, 8, 0x33, 0x21, rc::SET_ENABLE_WEBTRANSPORT, rc::SET_WT_MAX_SESSIONS, rc::SET_H3_DATAGRAM, rc::SET_ENABLE_CONNECT_PROTOCOL, 0x2b603743, 0xc671706b])
                } else {
                    rng.range(0, rc::VARINT_MAX)
                };
                (if grease { random_grease(&mut rng) } else { random_unknown(&mut rng, known) }, value)
            }
            Where::UniEarly | Where::UniLate => {
                let known = |t: u64| matches!(t, 0x00 | 0x01 | 0x02 | 0x03 | 0x54);
                (if grease { random_grease(&mut rng) } else { random_unknown(&mut rng, known) }, 0)
            }
            Where::ControlEarly | Where::ControlLate => {
                let t = if grease {
                    random_grease(&mut rng)
                } else if rng.chance_pm(400) {
                    // HTTP/3 control frames this library does not implement; all are legitimate on
                    // the control stream (MAX_PUSH_ID only client -> server)
                    if server_under_test {
                        *rng.pick(&[rc::FRAME_GOAWAY, rc::FRAME_MAX_PUSH_ID, rc::FRAME_CANCEL_PUSH])
                    } else {
                        *rng.pick(&[rc::FRAME_GOAWAY, rc::FRAME_CANCEL_PUSH])
                    }
                } else {
                    random_unknown(&mut rng, known_frame_type)
                };
                (t, 0)
            }
            _ => (if grease { random_grease(&mut rng) } else { random_unknown(&mut rng, known_frame_type) }, 0),
        };
        let as_capsule = at == Where::SessionStream && rng.coin();
        // capsule types with a defined meaning (RFC 9297 DATAGRAM, the WebTransport close / drain /
        // flow-control capsules) are not "unknown"
        let known_capsule = |t: u64| matches!(t, 0x00 | 0x2843 | 0x78ae) || (0x190b_4d3d..=0x190b_4d44).contains(&t);
        let ty = if as_capsule && known_capsule(ty) { rc::grease(ty) } else { ty };
        let mut payload = gen_payload(&mut rng);
        if many.is_some() {
            // many small elements: the whole must stay within frame and stream limits
            payload.truncate(24);
        }
        if matches!(ty, 0x03 | 0x07 | 0x0d) {
            payload = rc::varint(rng.range(0, 100) * 4);
        }
        if as_capsule {
            // keep the enclosing DATA frame within the implementation's documented 4096 B frame limit
            payload.truncate(4000);
        }
        ins.push(Ins {
            at,
            ty,
            ty_len: if rng.chance_pm(200) { *rng.pick(&[2usize, 4, 8]) } else { 0 },
            payload_hex: hex(&payload),
            as_capsule,
            value,
            fin: !flood && rng.coin(),
        });
    }
    let rl = *rng.pick(&[0usize, 3, 40]);
    let wtl = rng.usize(1, 200);
    Plan {
        base,
        ins,
        close_code: rng.next_u64() as u32,
        reason: (0..rl).map(|i| (b'a' + (i % 26) as u8) as char).collect(),
        wt_payload_hex: hex(&rng.bytes(wtl)),
    }
}

fn enc_type(ty: u64, ty_len: usize) -> Vec<u8> {
    let mut o = Vec::new();
    let l = if ty_len == 0 { rc::varint_len(ty) } else { ty_len.max(rc::varint_len(ty)) };
    rc::put_varint_len(ty, l, &mut o);
    o
}

fn frame_bytes(i: &Ins) -> Vec<u8> {
    let payload = crate::harness::unhex(&i.payload_hex);
    if i.as_capsule {
        let mut cap = enc_type(i.ty, i.ty_len);
        rc::put_varint(payload.len() as u64, &mut cap);
        cap.extend_from_slice(&payload);
        rc::frame(rc::FRAME_DATA, &cap)
    } else {
        let mut f = enc_type(i.ty, i.ty_len);
        rc::put_varint(payload.len() as u64, &mut f);
        f.extend_from_slice(&payload);
        f
    }
}

/// Compiles the plan into a script. Slots: 0 control, 1 CONNECT, 2 the WebTransport stream,
/// 10.. inserted uni streams.
pub fn compile(p: &Plan) -> Script {
    let sut_server = p.base.server_under_test;
    let mut acts = Vec::new();
    // control stream + SETTINGS (with inserted settings)
    let mut settings = rc::default_peer_settings();
    for i in p.ins.iter().filter(|i| i.at == Where::InSettings) {
        // insert at a position derived from the value so it is not always last
        if settings.iter().any(|(k, _)| *k == i.ty) {
            continue; // a repeated identifier is (rightly) H3_SETTINGS_ERROR, not C13's subject
        }
        let pos = (crate::rng::mix(&[i.value, i.ty]) as usize) % (settings.len() + 1);
        settings.insert(pos, (i.ty, i.value));
    }
    let mut control = rc::varint(rc::STREAM_CONTROL);
    control.extend_from_slice(&rc::frame(rc::FRAME_SETTINGS, &rc::settings_payload(&settings)));
    acts.push(Act::OpenUni { slot: SLOT_CONTROL });
    acts.push(Act::Write { slot: SLOT_CONTROL, hex: hex(&control) });
    for i in p.ins.iter().filter(|i| i.at == Where::ControlEarly) {
        acts.push(Act::Write { slot: SLOT_CONTROL, hex: hex(&frame_bytes(i)) });
    }
    let mut slot = 10;
    for i in p.ins.iter().filter(|i| i.at == Where::UniEarly) {
        let mut b = enc_type(i.ty, i.ty_len);
        b.extend_from_slice(&crate::harness::unhex(&i.payload_hex));
        acts.push(Act::OpenUni { slot });
        acts.push(Act::Write { slot, hex: hex(&b) });
        if i.fin {
            acts.push(Act::Fin { slot });
        }
        if p.base.k.max_uni < 20 {
            // behave as a conforming peer: reset what the endpoint asked us to stop
            acts.push(Act::Gap);
            acts.push(Act::ResetStopped);
        }
        slot += 1;
    }
    // CONNECT exchange with frames inserted before HEADERS
    let mut pre = Vec::new();
    for i in p.ins.iter().filter(|i| i.at == Where::BeforeHeaders) {
        pre.extend_from_slice(&frame_bytes(i));
    }
    if sut_server {
        acts.push(Act::OpenBi { slot: SLOT_CONNECT });
        pre.extend_from_slice(&rc::headers_frame(&rc::connect_request_fields("10.0.0.1:4433", "/script"), rc::EncStyle::PlainLiteral));
    } else {
        acts.push(Act::AcceptBi { slot: SLOT_CONNECT });
        pre.extend_from_slice(&rc::headers_frame(&crate::rawpeer::status_fields("200"), rc::EncStyle::PlainLiteral));
    }
    acts.push(Act::Write { slot: SLOT_CONNECT, hex: hex(&pre) });
    acts.push(Act::WaitSession);
    acts.push(Act::Gap);
    // established: late insertions, one WebTransport uni stream, then the close capsule
    for i in p.ins.iter().filter(|i| i.at == Where::ControlLate) {
        acts.push(Act::Write { slot: SLOT_CONTROL, hex: hex(&frame_bytes(i)) });
    }
    for i in p.ins.iter().filter(|i| i.at == Where::UniLate) {
        let mut b = enc_type(i.ty, i.ty_len);
        b.extend_from_slice(&crate::harness::unhex(&i.payload_hex));
        acts.push(Act::OpenUni { slot });
        acts.push(Act::Write { slot, hex: hex(&b) });
        if i.fin {
            acts.push(Act::Fin { slot });
        }
        if p.base.k.max_uni < 20 {
            acts.push(Act::Gap);
            acts.push(Act::ResetStopped);
        }
        slot += 1;
    }
    // session id: the client's first bidi stream in both roles
    let mut wt = rc::wt_uni_header(0);
    wt.extend_from_slice(&crate::harness::unhex(&p.wt_payload_hex));
    acts.push(Act::OpenUni { slot: 2 });
    acts.push(Act::Write { slot: 2, hex: hex(&wt) });
    acts.push(Act::Fin { slot: 2 });
    acts.push(Act::Gap);
    let mut sess = Vec::new();
    for i in p.ins.iter().filter(|i| i.at == Where::SessionStream) {
        sess.extend_from_slice(&frame_bytes(i));
    }
    sess.extend_from_slice(&rc::frame(rc::FRAME_DATA, &rc::close_capsule(p.close_code, p.reason.as_bytes())));
    acts.push(Act::Write { slot: SLOT_CONNECT, hex: hex(&sess) });
    let mut s = p.base.clone();
    s.acts = acts;
    s.settle_ms = 500;
    s
}

pub fn execute(plan: &Plan, trace: bool) -> Exec {
    let script = rc::with_stretch(plan.base.seed, plan.base.stretch_pm, || compile(plan));
    let (mut ex, obs) = run_script(&script, trace, "C13");
    let Some(obs) = obs else { return ex };
    ex.nontrivial = !plan.ins.is_empty();
    ex.probe("insertions", plan.ins.len() as u64);
    let what = || {
        plan.ins
            .iter()
            .map(|i| format!("{:?}:type={:#x}{}len={}", i.at, i.ty, if i.as_capsule { "(capsule)" } else { "" }, i.payload_hex.len() / 2))
            .collect::<Vec<_>>()
            .join(", ")
    };
    // outcome(X') == outcome(X): established, the WT stream delivered intact, close reported
    // with the capsule's values, transport closed with H3_NO_ERROR only then
    match &obs.sut {
        SutSession::Established { .. } => {}
        other => {
            ex.violation("C13/session-not-established", format!("with insertions [{}] the session outcome was {other:?} (raw peer saw {:?})", what(), obs.raw_close));
            return ex;
        }
    }
    let Some(app) = &obs.app else {
        ex.violation("C13/session-not-established", "no application".into());
        return ex;
    };
    let want_wt = crate::harness::unhex(&plan.wt_payload_hex);
    if !app.uni.values().any(|b| *b == want_wt) {
        ex.violation(
            "C13/stream-not-delivered",
            format!("with insertions [{}] the WebTransport stream was not delivered intact (delivered: {:?}, errors {:?}); raw peer saw {:?}", what(), app.uni.values().map(|b| b.len()).collect::<Vec<_>>(), app.uni_err, obs.raw_close),
        );
        return ex;
    }
    if app.uni.len() + app.uni_err.len() != 1 || !app.bi.is_empty() {
        ex.violation("C13/invented-stream", format!("with insertions [{}] the application was handed extra streams: uni {:?} bi {:?}", what(), app.accepted_uni, app.accepted_bi));
        return ex;
    }
    if app.ended.len() < 3 {
        ex.violation(
            "C13/close-not-reported",
            format!("with insertions [{}] only {:?} reported the session close; raw peer saw {:?}", what(), app.ended.iter().map(|e| e.0.clone()).collect::<Vec<_>>(), obs.raw_close),
        );
        return ex;
    }
    for (who, e) in &app.ended {
        match sut::app_closed(e) {
            Some((c, r)) if c == plan.close_code as u64 && r == plan.reason.as_bytes() => {}
            _ => {
                ex.violation("C13/close-misreported", format!("with insertions [{}] {who} returned {e:?}; capsule said code {} reason {:?}", what(), plan.close_code, plan.reason));
                return ex;
            }
        }
    }
    match &obs.raw_close {
        RawClose::Application { code, .. } if *code == rc::H3_NO_ERROR => {}
        other => ex.violation("C13/transport-close", format!("with insertions [{}] the raw peer saw {other:?} instead of a close with H3_NO_ERROR", what())),
    }
    ex
}

pub struct C13Raw;

impl TypedScenario for C13Raw {
    type Plan = Plan;
    fn name(&self) -> &'static str {
        "raw-insertions"
    }
    fn budget(&self, tier: Tier) -> usize {
        match tier {
            Tier::Quick => 16_000,
            Tier::Thorough => 2_000_000,
        }
    }
    fn generate(&self, seed: u64, index: usize, tier: Tier) -> Plan {
        gen_plan(seed, index, tier)
    }
    fn execute(&self, plan: &Plan, trace: bool) -> Exec {
        execute(plan, trace)
    }
    fn shrink(&self, plan: &Plan) -> Vec<Plan> {
        let v = serde_json::to_value(plan).unwrap();
        let mut c = shrink_array(&v, "/ins", 0);
        c.extend(shrink_num(&v, "/base/read_cap", 0));
        for (i, ins) in plan.ins.iter().enumerate() {
            if !ins.payload_hex.is_empty() {
                if let Some(x) = set_ptr(&v, &format!("/ins/{i}/payload_hex"), serde_json::json!("")) {
                    c.push(x);
                }
                let half = &ins.payload_hex[..(ins.payload_hex.len() / 4) * 2];
                if let Some(x) = set_ptr(&v, &format!("/ins/{i}/payload_hex"), serde_json::json!(half)) {
                    c.push(x);
                }
            }
            c.extend(shrink_num(&v, &format!("/ins/{i}/ty_len"), 0));
        }
        c.into_iter().filter_map(|v| serde_json::from_value(v).ok()).collect()
    }
}

pub fn def() -> PropertyDef {
    PropertyDef {
        id: "C13",
        scenarios: vec![Box::new(Typed(C13Raw))],
        rule: "Each run: scripted raw peer (client role against the real server on even indexes, server role against the real client on odd ones) performs the valid exchange X = control stream + SETTINGS, CONNECT request/response, one WebTransport uni stream, close capsule; X' inserts 0-8 elements: GREASE frames (types needing 1/2/4/8-byte varints, optionally non-shortest encodings), unknown frame types (random over every varint length, plus CANCEL_PUSH / GOAWAY / MAX_PUSH_ID on the control stream), payloads 0..4096 B (random, zeros, bytes that themselves look like frames incl. a fake close capsule, valid varints); unknown/GREASE settings inside SETTINGS; unknown capsules on the session stream; unknown and GREASE uni stream types with arbitrary content — at: control stream before / after establishment, before the HEADERS of the CONNECT stream, on the session stream before the capsule, inside SETTINGS, new uni streams before / after establishment. Types with a defined meaning or a mandated error (0x00-0x09, 0x0d, 0x41; reserved HTTP/2 settings 0x00,0x02-0x05; stream types 0x00-0x03, 0x54) are excluded from 'unknown'. Oracle: outcome(X') == outcome(X): session established, the WebTransport stream delivered byte-exact and nothing else delivered, all three pending calls report ApplicationClosed with the capsule's code and reason, the transport is closed with H3_NO_ERROR only then. Payloads above the documented 4096 B frame-parse limit are excluded (prescribed under C12). Non-trivial = at least one insertion; distinct = distinct plan hashes.",
        assumptions: vec![
            "raw peer + reference codec are harness code (validated against RFC worked examples at start-up)",
            "current-thread runtime; fault-free network (segmentation and interleaving are C05's subject)",
        ],
        real_components: vec!["wtransport (endpoint under test)", "wtransport-proto", "quinn", "quinn-proto", "rustls", "ring", "tokio scheduler + timer wheel (paused clock)"],
        stub_components: vec!["UDP sockets (SimNet)", "OS clock", "the peer: scripted raw quinn endpoint + independent reference codec"],
    }
}
