//! C06 — stream termination signals carry their codes end to end.
//!
//! E2E. One stream per run in one of the four roles and either direction of a bidirectional
//! stream; the writer / reader follow a generated history of {write, finish, reset(c)} /
//! {read, stop(c)}; a small reference model of one QUIC stream half says which observations
//! are allowed. `finish` is additionally checked to wait for the peer's acknowledgement by
//! partitioning the data or the acknowledgement direction.

use crate::core::*;
use crate::harness::{self, EpKnobs};
use crate::props::c01::pattern;
use crate::rng::Rng;
use crate::simnet::{NetCfg, SimNet};
use crate::simrt::{self, RtKnobs};
use crate::sut;
use serde::{Deserialize, Serialize};
use std::sync::{Arc, Mutex};
use std::time::Duration;
use wtransport::error::{StreamReadError, StreamWriteError};
use wtransport::{RecvStream, SendStream, VarInt};

#[derive(Serialize, Deserialize, Clone, Debug, PartialEq)]
pub enum Case {
    /// writer: write `pre` bytes, optionally start finishing, then reset(code)
    Reset { pre: usize, finish_first: bool, settle_before_reset: bool, code: u64 },
    /// reader: read `after` bytes, then stop(code); writer keeps writing
    Stop { after: usize, first_part: usize, second_part: usize, code: u64 },
    /// plain finish: all bytes then end-of-stream
    Finish { len: usize },
    /// finish must not succeed while the peer cannot acknowledge
    FinishPartition { len: usize, block_data: bool },
    /// as above, but the FIN was already queued by an earlier, abandoned attempt: a finish()
    /// future dropped by a timeout (via = 0), or tokio's AsyncWriteExt::shutdown (via = 1)
    FinishReissued { len: usize, block_data: bool, via: u8 },
    /// the writer writes `pre` bytes and does not finish; then the connection ends by a close
    /// on the reader's side (`reader_closes`) or on the writer's: the reader must never see a
    /// clean end-of-stream - end-of-stream means the sender finished
    Unfinished { pre: usize, reader_closes: bool },
    /// while the acceptor is not accepting, the opener opens `n` more streams of the plan's kind,
    /// writes a few bytes on each and resets them with codes derived from the plan's code; only
    /// then does the acceptor accept: every one of them is handed out and reads Reset(its code)
    ResetWhileQueued { n: usize, code: u64 },
}

#[derive(Serialize, Deserialize, Clone, Debug)]
pub struct Plan {
    pub seed: u64,
    pub rt: RtKnobs,
    pub net: NetCfg,
    pub opener_is_client: bool,
    pub bidi: bool,
    /// false: opener -> acceptor; true (bidi only): acceptor -> opener
    pub back: bool,
    pub case: Case,
    /// 0: the reader uses read(); n > 0: read_exact() with buffers of n bytes (a reset / end
    /// of stream then lands while a call is parked with a partly filled buffer)
    #[serde(default)]
    pub read_exact_chunk: usize,
}

// varint-length boundaries, then values that mean something elsewhere in the protocol stack
// (HTTP/3, QPACK and WebTransport error codes, the bounds of the WebTransport-to-HTTP/3 code
// mapping): application codes are opaque, none of them is special
const CODES: [u64; 31] = [0, 1, 63, 64, 16383, 16384, (1 << 30) - 1, 1 << 30, (1 << 62) - 2, (1 << 62) - 1, 0x33, 0x100, 0x103, 0x104, 0x105, 0x106, 0x107, 0x108, 0x109, 0x10a, 0x10b, 0x10c, 0x10e, 0x110, 0x200, 0x201, 0x202, 0x170d_7b68, 0x3994_bd84, 0x52e4_a40f_a8db, 0x52e5_ac98_3162];

pub fn gen_plan(seed: u64, index: usize, faulty: bool) -> Plan {
    let mut rng = Rng::new(seed, "c06");
    let rt = RtKnobs::from_rng(&mut rng);
    let mut net = NetCfg::clean(rng.next_u64());
    net.lat_min_us = *rng.pick(&[200u64, 1_000, 10_000]);
    net.lat_jitter_us = *rng.pick(&[0u64, 0, 1_000]);
    if faulty {
        net.drop_pm = *rng.pick(&[10u32, 40]);
        net.dup_pm = *rng.pick(&[0u32, 20]);
        net.reorder_pm = *rng.pick(&[0u32, 50]);
        net.reorder_extra_us = rng.range(1_000, 15_000);
        net.fault_until_us = Some(20_000_000);
    }
    let bidi = rng.coin();
    let code = if rng.chance_pm(700) { CODES[index % CODES.len()] } else { rng.range(0, (1 << 62) - 1) };
    let case = match rng.below(if faulty { 3 } else { 7 }) {
        6 => Case::ResetWhileQueued { n: *rng.pick(&[1usize, 2, 3, 5, 6, 9]), code },
        5 => Case::Unfinished { pre: *rng.pick(&[0usize, 1, 100, 5000]), reader_closes: rng.chance_pm(700) },
        0 => Case::Reset { pre: *rng.pick(&[0usize, 0, 1, 100, 5000, 50_000]), finish_first: rng.chance_pm(300), settle_before_reset: rng.coin(), code },
        1 => Case::Stop { after: *rng.pick(&[0usize, 0, 1, 100, 3000]), first_part: *rng.pick(&[1usize, 100, 3000, 20_000]), second_part: *rng.pick(&[1usize, 100, 5000]), code },
        2 => Case::Finish { len: *rng.pick(&[0usize, 1, 1000, 70_000]) },
        3 => Case::FinishPartition { len: *rng.pick(&[0usize, 1, 1000, 20_000]), block_data: rng.coin() },
        _ => Case::FinishReissued { len: *rng.pick(&[0usize, 1, 1000, 20_000]), block_data: rng.coin(), via: rng.below(2) as u8 },
    };
    let read_exact_chunk = if rng.chance_pm(400) { *rng.pick(&[1usize, 7, 150, 1500, 4000, 100_000]) } else { 0 };
    Plan { seed, rt, net, opener_is_client: rng.coin(), bidi, back: bidi && rng.coin(), case, read_exact_chunk }
}

#[derive(Debug, Default)]
struct Observed {
    reader_bytes: Vec<u8>,
    reader_end: Option<Result<(), StreamReadError>>, // Ok = end-of-stream
    writer_errors: Vec<(String, StreamWriteError)>,
    writer_oks: Vec<String>,
    reset_result: Option<bool>,
    notes: Vec<String>,
}

async fn read_to_end(recv: &mut RecvStream, obs: &Arc<Mutex<Observed>>, limit: Option<usize>, exact_chunk: usize) -> bool {
    // returns true if `limit` bytes were read without reaching the end
    let mut buf = vec![0u8; if exact_chunk > 0 { exact_chunk } else { 1500 }];
    loop {
        if let Some(l) = limit {
            if obs.lock().unwrap().reader_bytes.len() >= l {
                return true;
            }
        }
        let want = match limit {
            Some(l) => (l - obs.lock().unwrap().reader_bytes.len()).min(buf.len()).max(1),
            None => buf.len(),
        };
        if exact_chunk > 0 {
            use wtransport::error::StreamReadExactError as X;
            match recv.read_exact(&mut buf[..want]).await {
                Ok(()) => obs.lock().unwrap().reader_bytes.extend_from_slice(&buf[..want]),
                Err(X::FinishedEarly(n)) => {
                    let mut o = obs.lock().unwrap();
                    o.reader_bytes.extend_from_slice(&buf[..n.min(want)]);
                    if n > want {
                        o.notes.push(format!("read_exact FinishedEarly({n}) on a {want}-byte buffer"));
                    }
                    o.reader_end = Some(Ok(()));
                    return false;
                }
                Err(X::Read(e)) => {
                    obs.lock().unwrap().reader_end = Some(Err(e));
                    return false;
                }
            }
            continue;
        }
        match recv.read(&mut buf[..want]).await {
            Ok(Some(n)) => obs.lock().unwrap().reader_bytes.extend_from_slice(&buf[..n]),
            Ok(None) => {
                obs.lock().unwrap().reader_end = Some(Ok(()));
                return false;
            }
            Err(e) => {
                obs.lock().unwrap().reader_end = Some(Err(e));
                return false;
            }
        }
    }
}

pub fn execute(plan: &Plan, trace: bool) -> Exec {
    let mut ex = Exec::new();
    let plan = Arc::new(plan.clone());
    let p2 = plan.clone();
    let faulty = plan.net.has_faults();
    let netslot: Arc<Mutex<Option<SimNet>>> = Arc::new(Mutex::new(None));
    let ns2 = netslot.clone();
    let out = simrt::run(&plan.rt, plan.seed, Duration::from_secs(200), move || async move {
        let plan = p2;
        let net = SimNet::new(plan.net.clone(), trace);
        *ns2.lock().unwrap() = Some(net.clone());
        let k = EpKnobs::default();
        let pair = harness::pair(&net, plan.seed, &k, &k);
        let (cconn, sconn) = harness::establish(&pair, &harness::default_url()).await?;
        let (opener, acceptor) = if plan.opener_is_client { (cconn.clone(), sconn.clone()) } else { (sconn.clone(), cconn.clone()) };
        // open the stream and get the (writer, reader) pair of the direction under test
        let (mut writer, mut reader, mut _keep): (SendStream, RecvStream, Vec<Box<dyn std::any::Any + Send>>);
        if plan.bidi {
            let (os, or) = opener.open_bi().await.map_err(|e| format!("{e:?}"))?.await.map_err(|e| format!("{e:?}"))?;
            let (as_, ar) = tokio::time::timeout(Duration::from_secs(60), acceptor.accept_bi()).await.map_err(|_| "accept_bi timeout")?.map_err(|e| format!("{e:?}"))?;
            if plan.back {
                writer = as_;
                reader = or;
                _keep = vec![Box::new(os), Box::new(ar)];
            } else {
                writer = os;
                reader = ar;
                _keep = vec![Box::new(as_), Box::new(or)];
            }
        } else {
            let os = opener.open_uni().await.map_err(|e| format!("{e:?}"))?.await.map_err(|e| format!("{e:?}"))?;
            let ar = tokio::time::timeout(Duration::from_secs(60), acceptor.accept_uni()).await.map_err(|_| "accept_uni timeout")?.map_err(|e| format!("{e:?}"))?;
            writer = os;
            reader = ar;
            _keep = vec![];
        }
        if writer.id() != reader.id() {
            return Err(format!("stream ids differ: {} vs {}", writer.id(), reader.id()));
        }
        let obs: Arc<Mutex<Observed>> = Arc::new(Mutex::new(Observed::default()));
        let writer_is_client = plan.opener_is_client != plan.back;
        let rx = plan.read_exact_chunk;
        let (wsock, rsock) = if writer_is_client { (pair.client_sock.clone(), pair.server_sock.clone()) } else { (pair.server_sock.clone(), pair.client_sock.clone()) };
        match plan.case.clone() {
            Case::Reset { pre, finish_first, settle_before_reset, code } => {
                let data = pattern(plan.seed, pre);
                let o2 = obs.clone();
                let rt = tokio::spawn(async move {
                    read_to_end(&mut reader, &o2, None, rx).await;
                });
                if pre > 0 {
                    // bounded: with pre > the flow-control window the write waits for the reader, which is reading
                    if let Err(e) = writer.write_all(&data).await {
                        obs.lock().unwrap().writer_errors.push(("write_all".into(), e));
                    }
                }
                if settle_before_reset {
                    net.quiesce(Duration::from_millis(20), Duration::from_secs(5)).await;
                }
                if finish_first {
                    // start finishing but do not wait for the acknowledgement
                    let r = tokio::time::timeout(Duration::from_micros(50), writer.finish()).await;
                    obs.lock().unwrap().notes.push(format!("finish-before-reset: {r:?}"));
                }
                let r = writer.reset(VarInt::try_from_u64(code).unwrap());
                obs.lock().unwrap().reset_result = Some(r.is_ok());
                let _ = tokio::time::timeout(Duration::from_secs(60), rt).await;
            }
            Case::Stop { after, first_part, second_part, code } => {
                let total = first_part + second_part;
                let data = pattern(plan.seed, total);
                let o2 = obs.clone();
                let rt = tokio::spawn(async move {
                    let more = read_to_end(&mut reader, &o2, Some(after), rx).await;
                    if more || after == 0 {
                        reader.stop(VarInt::try_from_u64(code).unwrap());
                        o2.lock().unwrap().notes.push("stopped".into());
                    }
                });
                // first part may or may not complete before the stop arrives
                match tokio::time::timeout(Duration::from_secs(60), writer.write_all(&data[..first_part])).await {
                    Ok(Ok(())) => obs.lock().unwrap().writer_oks.push("write#1".into()),
                    Ok(Err(e)) => obs.lock().unwrap().writer_errors.push(("write#1".into(), e)),
                    Err(_) => obs.lock().unwrap().notes.push("write#1 blocked 60 s".into()),
                }
                let _ = tokio::time::timeout(Duration::from_secs(60), rt).await;
                // the stop has been issued; once the network is quiet it has arrived
                net.quiesce(Duration::from_millis(50), Duration::from_secs(10)).await;
                tokio::time::sleep(Duration::from_millis(200)).await;
                let stopped_issued = obs.lock().unwrap().notes.iter().any(|n| n == "stopped");
                if stopped_issued {
                    match tokio::time::timeout(Duration::from_secs(30), writer.write(&data[first_part..])).await {
                        Ok(Ok(n)) => obs.lock().unwrap().writer_oks.push(format!("write-after-stop({n})")),
                        Ok(Err(e)) => obs.lock().unwrap().writer_errors.push(("write-after-stop".into(), e)),
                        Err(_) => obs.lock().unwrap().notes.push("write-after-stop blocked".into()),
                    }
                    match tokio::time::timeout(Duration::from_secs(30), writer.stopped()).await {
                        Ok(e) => obs.lock().unwrap().writer_errors.push(("stopped()".into(), e)),
                        Err(_) => obs.lock().unwrap().notes.push("stopped() pending 30 s after the stop".into()),
                    }
                    match tokio::time::timeout(Duration::from_secs(30), writer.finish()).await {
                        Ok(Ok(())) => obs.lock().unwrap().writer_oks.push("finish-after-stop".into()),
                        Ok(Err(e)) => obs.lock().unwrap().writer_errors.push(("finish-after-stop".into(), e)),
                        Err(_) => obs.lock().unwrap().notes.push("finish-after-stop pending 30 s".into()),
                    }
                    match tokio::time::timeout(Duration::from_secs(30), writer.stopped()).await {
                        Ok(e) => obs.lock().unwrap().writer_errors.push(("stopped()#2".into(), e)),
                        Err(_) => obs.lock().unwrap().notes.push("stopped()#2 pending".into()),
                    }
                    // the code is not a one-shot notification: whatever the library did when it first
                    // reported the stop, every later operation - at once and a few round trips
                    // later - still reports it
                    match tokio::time::timeout(Duration::from_secs(30), writer.write(b"y")).await {
                        Ok(Ok(n)) => obs.lock().unwrap().writer_oks.push(format!("write-after-stopped()({n})")),
                        Ok(Err(e)) => obs.lock().unwrap().writer_errors.push(("write-after-stopped()".into(), e)),
                        Err(_) => obs.lock().unwrap().notes.push("write-after-stopped() blocked".into()),
                    }
                    net.quiesce(Duration::from_millis(30), Duration::from_secs(5)).await;
                    tokio::time::sleep(Duration::from_millis(300)).await;
                    match tokio::time::timeout(Duration::from_secs(30), writer.stopped()).await {
                        Ok(e) => obs.lock().unwrap().writer_errors.push(("stopped()#3".into(), e)),
                        Err(_) => obs.lock().unwrap().notes.push("stopped()#3 pending".into()),
                    }
                    match tokio::time::timeout(Duration::from_secs(30), writer.finish()).await {
                        Ok(Ok(())) => obs.lock().unwrap().writer_oks.push("finish#2".into()),
                        Ok(Err(e)) => obs.lock().unwrap().writer_errors.push(("finish#2".into(), e)),
                        Err(_) => obs.lock().unwrap().notes.push("finish#2 pending 30 s".into()),
                    }
                    match tokio::time::timeout(Duration::from_secs(30), writer.write_all(b"z")).await {
                        Ok(Ok(())) => obs.lock().unwrap().writer_oks.push("write#3".into()),
                        Ok(Err(e)) => obs.lock().unwrap().writer_errors.push(("write#3".into(), e)),
                        Err(_) => obs.lock().unwrap().notes.push("write#3 blocked".into()),
                    }
                }
            }
            Case::ResetWhileQueued { n, code } => {
                let codes: Vec<u64> = (0..n).map(|i| (code ^ ((i as u64) * 0x9e37)) & ((1u64 << 62) - 1)).collect();
                let mut held = Vec::new();
                let mut ids = Vec::new();
                for c in &codes {
                    let mut ws = if plan.bidi {
                        let (w, r) = opener.open_bi().await.map_err(|e| format!("{e:?}"))?.await.map_err(|e| format!("{e:?}"))?;
                        held.push(Box::new(r) as Box<dyn std::any::Any + Send>);
                        w
                    } else {
                        opener.open_uni().await.map_err(|e| format!("{e:?}"))?.await.map_err(|e| format!("{e:?}"))?
                    };
                    let _ = ws.write_all(format!("queued-{c}").as_bytes()).await;
                    ids.push(ws.id().into_u64());
                    held.push(Box::new(ws));
                    // the stream (and its preamble) reaches the peer before it is reset
                    net.quiesce(Duration::from_millis(20), Duration::from_secs(5)).await;
                }
                // reset them all, oldest first, then let the resets arrive
                let mut writers: Vec<SendStream> = Vec::new();
                for h in held.drain(..) {
                    match h.downcast::<SendStream>() {
                        Ok(w) => writers.push(*w),
                        Err(other) => _keep.push(other),
                    }
                }
                for (w, c) in writers.iter_mut().zip(&codes) {
                    let _ = w.reset(VarInt::try_from_u64(*c).unwrap());
                }
                net.quiesce(Duration::from_millis(50), Duration::from_secs(10)).await;
                tokio::time::sleep(Duration::from_millis(200)).await;
                for _ in 0..n {
                    let mut r = if plan.bidi {
                        match tokio::time::timeout(Duration::from_secs(30), acceptor.accept_bi()).await {
                            Ok(Ok((s, r))) => {
                                _keep.push(Box::new(s));
                                r
                            }
                            other => {
                                obs.lock().unwrap().notes.push(format!("queued-accept-failed: {:?}", other.map(|x| x.map(|_| ()))));
                                break;
                            }
                        }
                    } else {
                        match tokio::time::timeout(Duration::from_secs(30), acceptor.accept_uni()).await {
                            Ok(Ok(r)) => r,
                            other => {
                                obs.lock().unwrap().notes.push(format!("queued-accept-failed: {:?}", other.map(|x| x.map(|_| ()))));
                                break;
                            }
                        }
                    };
                    let id = r.id().into_u64();
                    let mut buf = [0u8; 64];
                    let end = loop {
                        match tokio::time::timeout(Duration::from_secs(30), r.read(&mut buf)).await {
                            Ok(Ok(Some(_))) => continue,
                            Ok(Ok(None)) => break "end-of-stream".to_string(),
                            Ok(Err(StreamReadError::Reset(c))) => break format!("reset:{}", c.into_inner()),
                            Ok(Err(e)) => break format!("{e:?}"),
                            Err(_) => break "read pending 30 s".to_string(),
                        }
                    };
                    obs.lock().unwrap().notes.push(format!("queued-result id={id} {end}"));
                }
                let mut o = obs.lock().unwrap();
                for (id, c) in ids.iter().zip(&codes) {
                    o.notes.push(format!("queued-sent id={id} reset:{c}"));
                }
                drop(o);
                _keep.push(Box::new(writers));
            }
            Case::Unfinished { pre, reader_closes } => {
                let data = pattern(plan.seed, pre);
                let o2 = obs.clone();
                let rt = tokio::spawn(async move {
                    read_to_end(&mut reader, &o2, None, rx).await;
                    // whatever ended the first read loop, a further read says the same kind of thing
                    let mut b = [0u8; 16];
                    let again = reader.read(&mut b).await;
                    o2.lock().unwrap().notes.push(format!("read-again: {again:?}"));
                });
                if pre > 0 {
                    if let Err(e) = writer.write_all(&data).await {
                        obs.lock().unwrap().writer_errors.push(("write_all".into(), e));
                    }
                }
                net.quiesce(Duration::from_millis(50), Duration::from_secs(10)).await;
                tokio::time::sleep(Duration::from_millis(100)).await;
                let reader_is_opener = plan.back;
                let closer = if reader_closes == reader_is_opener { &opener } else { &acceptor };
                closer.close(VarInt::from_u32(9), b"done");
                let _ = tokio::time::timeout(Duration::from_secs(60), rt).await;
            }
            Case::Finish { len } => {
                let data = pattern(plan.seed, len);
                let o2 = obs.clone();
                let rt = tokio::spawn(async move {
                    read_to_end(&mut reader, &o2, None, rx).await;
                });
                if let Err(e) = writer.write_all(&data).await {
                    obs.lock().unwrap().writer_errors.push(("write_all".into(), e));
                }
                match tokio::time::timeout(Duration::from_secs(60), writer.finish()).await {
                    Ok(Ok(())) => obs.lock().unwrap().writer_oks.push("finish".into()),
                    Ok(Err(e)) => obs.lock().unwrap().writer_errors.push(("finish".into(), e)),
                    Err(_) => obs.lock().unwrap().notes.push("finish pending 60 s".into()),
                }
                let _ = tokio::time::timeout(Duration::from_secs(60), rt).await;
                // a finished stream stays finished
                match tokio::time::timeout(Duration::from_secs(5), writer.stopped()).await {
                    Ok(StreamWriteError::Closed) => {}
                    other => obs.lock().unwrap().notes.push(format!("stopped() after finish: {other:?}")),
                }
            }
            Case::FinishReissued { len, block_data, via } => {
                let data = pattern(plan.seed, len);
                let o2 = obs.clone();
                let rt = tokio::spawn(async move {
                    read_to_end(&mut reader, &o2, None, rx).await;
                });
                net.quiesce(Duration::from_millis(20), Duration::from_secs(5)).await;
                if block_data {
                    net.set_block(&wsock, &rsock, true);
                } else {
                    net.set_block(&rsock, &wsock, true);
                }
                let _ = tokio::time::timeout(Duration::from_secs(5), writer.write_all(&data)).await;
                // first attempt, abandoned: the FIN is queued, nothing is acknowledged
                if via == 0 {
                    let r = tokio::time::timeout(Duration::from_millis(150), writer.finish()).await;
                    obs.lock().unwrap().notes.push(format!("first-finish: {}", if r.is_err() { "dropped while pending".to_string() } else { format!("EARLY-FINISH {r:?}") }));
                } else {
                    let r = tokio::time::timeout(Duration::from_millis(150), tokio::io::AsyncWriteExt::shutdown(&mut writer)).await;
                    obs.lock().unwrap().notes.push(format!("shutdown: {r:?}"));
                }
                let mut fin: std::pin::Pin<Box<dyn std::future::Future<Output = Result<(), StreamWriteError>> + Send + '_>> = Box::pin(writer.finish());
                let mut early = false;
                match tokio::time::timeout(Duration::from_secs(8), &mut fin).await {
                    Ok(r) => {
                        early = true;
                        obs.lock().unwrap().notes.push(format!("EARLY-FINISH (re-issued) {r:?}"))
                    }
                    Err(_) => obs.lock().unwrap().notes.push("re-issued finish pending during partition".into()),
                }
                if block_data {
                    net.set_block(&wsock, &rsock, false);
                } else {
                    net.set_block(&rsock, &wsock, false);
                }
                if early {
                    // the future has completed; do not poll it again
                    fin = Box::pin(std::future::ready(Ok(())));
                }
                match tokio::time::timeout(Duration::from_secs(60), &mut fin).await {
                    Ok(Ok(())) => obs.lock().unwrap().writer_oks.push("finish-after-heal".into()),
                    Ok(Err(e)) => obs.lock().unwrap().writer_errors.push(("finish-after-heal".into(), e)),
                    Err(_) => obs.lock().unwrap().notes.push("finish pending 60 s after heal".into()),
                }
                drop(fin);
                let _ = tokio::time::timeout(Duration::from_secs(60), rt).await;
            }
            Case::FinishPartition { len, block_data } => {
                let data = pattern(plan.seed, len);
                let o2 = obs.clone();
                let rt = tokio::spawn(async move {
                    read_to_end(&mut reader, &o2, None, rx).await;
                });
                net.quiesce(Duration::from_millis(20), Duration::from_secs(5)).await;
                if block_data {
                    net.set_block(&wsock, &rsock, true);
                } else {
                    net.set_block(&rsock, &wsock, true);
                }
                let _ = tokio::time::timeout(Duration::from_secs(5), writer.write_all(&data)).await;
                let mut fin: std::pin::Pin<Box<dyn std::future::Future<Output = Result<(), StreamWriteError>> + Send + '_>> = Box::pin(writer.finish());
                let mut early = false;
                match tokio::time::timeout(Duration::from_secs(10), &mut fin).await {
                    Ok(r) => {
                        early = true;
                        obs.lock().unwrap().notes.push(format!("EARLY-FINISH {r:?}"))
                    }
                    Err(_) => obs.lock().unwrap().notes.push("finish pending during partition".into()),
                }
                if block_data {
                    net.set_block(&wsock, &rsock, false);
                } else {
                    net.set_block(&rsock, &wsock, false);
                }
                if early {
                    fin = Box::pin(std::future::ready(Ok(())));
                }
                match tokio::time::timeout(Duration::from_secs(60), &mut fin).await {
                    Ok(Ok(())) => obs.lock().unwrap().writer_oks.push("finish-after-heal".into()),
                    Ok(Err(e)) => obs.lock().unwrap().writer_errors.push(("finish-after-heal".into(), e)),
                    Err(_) => obs.lock().unwrap().notes.push("finish pending 60 s after heal".into()),
                }
                drop(fin);
                let _ = tokio::time::timeout(Duration::from_secs(60), rt).await;
            }
        }
        let o = std::mem::take(&mut *obs.lock().unwrap());
        drop(pair);
        Ok::<_, String>(o)
    });
    sut::finish_exec(&mut ex, &netslot, trace);
    if !out.panics.is_empty() {
        ex.violation("C06/panic", out.panics.join(" | "));
        return ex;
    }
    let o = match out.value {
        None => {
            if faulty {
                ex.inconclusive("simulated-time limit under faults");
            } else {
                ex.violation("C06/run-did-not-finish", "exceeded 200 s simulated".into());
            }
            return ex;
        }
        Some(Err(e)) => {
            if faulty {
                ex.inconclusive("setup failed under faults");
            } else {
                ex.violation("C06/setup", e);
            }
            return ex;
        }
        Some(Ok(o)) => o,
    };
    ex.nontrivial = !faulty || ex.net.faults_fired() > 0;
    let role = format!("{} {}{}", if plan.opener_is_client { "client-opened" } else { "server-opened" }, if plan.bidi { "bidi" } else { "uni" }, if plan.back { " (acceptor->opener)" } else { "" });
    let lost = |e: &StreamWriteError| matches!(e, StreamWriteError::NotConnected);
    if faulty && (o.writer_errors.iter().any(|(_, e)| lost(e)) || matches!(o.reader_end, Some(Err(StreamReadError::NotConnected)))) {
        ex.inconclusive("connection lost under faults");
        return ex;
    }
    match &plan.case {
        Case::Reset { pre, finish_first, code, .. } => {
            let data = pattern(plan.seed, *pre);
            if !data.starts_with(&o.reader_bytes) {
                ex.violation("C06/reset-bytes", format!("{role}: before the reset the reader saw bytes that are not a prefix of what was written ({} bytes read)", o.reader_bytes.len()));
                return ex;
            }
            let reset_accepted = o.reset_result == Some(true);
            ex.fault("stream_reset_mid_transfer", reset_accepted as u64);
            ex.probe("reset_while_read_exact_parked", (reset_accepted && plan.read_exact_chunk > *pre) as u64);
            // a finish() attempt abandoned while still pending (no acknowledgement can arrive within
            // its 50 us: the one-way latency is at least 200 us) leaves the stream open for a reset
            let finish_abandoned = o.notes.iter().any(|n| n.starts_with("finish-before-reset: Err(Elapsed"));
            if *finish_first && finish_abandoned && !reset_accepted {
                ex.violation(
                    "C06/reset-refused",
                    format!("{role}: writer wrote {pre} bytes, began finishing (still pending, FIN unacknowledged), then reset({code}) was refused: {:?}; reader saw {} bytes then {:?}", o.reset_result, o.reader_bytes.len(), o.reader_end),
                );
                return ex;
            }
            match &o.reader_end {
                Some(Err(StreamReadError::Reset(c))) if c.into_inner() == *code && reset_accepted => ex.probe("reset_seen", 1),
                Some(Ok(())) if *finish_first && o.reader_bytes.len() == *pre => ex.probe("finish_won_over_reset", 1),
                other => ex.violation(
                    "C06/reset-code",
                    format!("{role}: writer wrote {pre} bytes{} then reset({code}) -> {:?}; reader saw {} bytes then {other:?}", if *finish_first { ", began finishing," } else { "" }, o.reset_result, o.reader_bytes.len()),
                ),
            }
        }
        Case::Stop { after, first_part, code, .. } => {
            let stopped_issued = o.notes.iter().any(|n| n == "stopped");
            if !stopped_issued {
                // the reader hit the end before `after` bytes: not a stop run
                ex.nontrivial = false;
                return ex;
            }
            for (what, e) in &o.writer_errors {
                match e {
                    StreamWriteError::Stopped(c) if c.into_inner() == *code => {}
                    other => {
                        ex.violation("C06/stop-code", format!("{role}: reader stopped the stream with code {code} after {after} bytes; writer's {what} reported {other:?} (all: {:?}; oks {:?})", o.writer_errors, o.writer_oks));
                        return ex;
                    }
                }
            }
            for need in ["write-after-stop", "stopped()", "finish-after-stop", "stopped()#2", "write-after-stopped()", "stopped()#3", "finish#2", "write#3"] {
                if !o.writer_errors.iter().any(|(w, _)| w == need) {
                    ex.violation(
                        "C06/stop-not-reported",
                        format!("{role}: after stop({code}) had certainly arrived, {need} did not report 'stopped' (first part {first_part} B; errors {:?}; oks {:?}; notes {:?})", o.writer_errors, o.writer_oks, o.notes),
                    );
                    return ex;
                }
            }
            ex.probe("stop_seen", 1);
            ex.fault("stream_stopped_mid_transfer", 1);
        }
        Case::ResetWhileQueued { n, .. } => {
            if let Some(f) = o.notes.iter().find(|x| x.starts_with("queued-accept-failed")) {
                let got = o.notes.iter().filter(|x| x.starts_with("queued-result")).count();
                ex.violation("C06/reset-stream-never-handed-out", format!("{role}: {n} streams were reset while waiting to be accepted; only {got} were returned by accept ({f})"));
                return ex;
            }
            for sent in o.notes.iter().filter(|x| x.starts_with("queued-sent ")) {
                let mut it = sent.split(' ');
                let (_, id, want) = (it.next(), it.next().unwrap_or(""), it.next().unwrap_or(""));
                let got = o.notes.iter().find(|x| x.starts_with(&format!("queued-result {id} ")));
                match got {
                    Some(g) if g.ends_with(&format!(" {want}")) => {}
                    other => {
                        ex.violation("C06/reset-code", format!("{role}: stream {id} was reset with {want} before it was accepted; the acceptor's read ended with {other:?}"));
                        return ex;
                    }
                }
            }
            ex.fault("stream_reset_before_accept", *n as u64);
        }
        Case::Unfinished { pre, reader_closes } => {
            let data = pattern(plan.seed, *pre);
            if !data.starts_with(&o.reader_bytes) {
                ex.violation("C06/unfinished-bytes", format!("{role}: the reader saw bytes that are not a prefix of what was written ({} bytes read)", o.reader_bytes.len()));
                return ex;
            }
            let who = if *reader_closes { "the reader's own side" } else { "the writer's side" };
            match &o.reader_end {
                Some(Ok(())) => ex.violation(
                    "C06/end-of-stream-without-finish",
                    format!("{role}: the writer wrote {pre} bytes and never finished; after {who} closed the connection the reader got a clean end-of-stream after {} bytes", o.reader_bytes.len()),
                ),
                Some(Err(_)) => {
                    if let Some(n) = o.notes.iter().find(|n| n.starts_with("read-again: Ok")) {
                        ex.violation("C06/end-of-stream-without-finish", format!("{role}: after the connection was closed by {who} a further read on the unfinished stream returned {n}"));
                    }
                }
                None => ex.violation("C06/read-hangs", format!("{role}: read still pending 60 s after {who} closed the connection")),
            }
            ex.fault("connection_closed_under_an_unfinished_stream", 1);
        }
        Case::Finish { len } => {
            let data = pattern(plan.seed, *len);
            if o.reader_bytes != data || !matches!(o.reader_end, Some(Ok(()))) {
                ex.violation("C06/finish-bytes", format!("{role}: finished stream of {len} bytes: reader saw {} bytes then {:?}", o.reader_bytes.len(), o.reader_end));
            } else if !o.writer_oks.iter().any(|w| w == "finish") {
                ex.violation("C06/finish-result", format!("{role}: finish of a fully read stream: errors {:?} notes {:?}", o.writer_errors, o.notes));
            } else if let Some(n) = o.notes.iter().find(|n| n.starts_with("stopped() after finish")) {
                ex.violation("C06/finish-result", format!("{role}: {n}"));
            }
            ex.probe("finish_seen", 1);
        }
        Case::FinishPartition { len, block_data } | Case::FinishReissued { len, block_data, .. } => {
            if let Some(n) = o.notes.iter().find(|n| n.contains("EARLY-FINISH")) {
                ex.violation(
                    "C06/finish-before-ack",
                    format!("{role}: finish() returned while the {} direction was partitioned (nothing could be acknowledged): {n}", if *block_data { "data" } else { "acknowledgement" }),
                );
                return ex;
            }
            let data = pattern(plan.seed, *len);
            if !o.writer_oks.iter().any(|w| w == "finish-after-heal") {
                ex.violation("C06/finish-after-heal", format!("{role}: after the partition healed finish() gave errors {:?} notes {:?}", o.writer_errors, o.notes));
            } else if o.reader_bytes != data || !matches!(o.reader_end, Some(Ok(()))) {
                ex.violation("C06/finish-bytes", format!("{role}: after heal reader saw {} of {len} bytes then {:?}", o.reader_bytes.len(), o.reader_end));
            }
            ex.probe("finish_waited_for_ack", 1);
            ex.fault("finish_future_dropped_and_reissued", matches!(plan.case, Case::FinishReissued { .. }) as u64);
        }
    }
    ex
}

pub struct C06E2E {
    pub faulty: bool,
}

impl TypedScenario for C06E2E {
    type Plan = Plan;
    fn name(&self) -> &'static str {
        if self.faulty {
            "e2e-faults"
        } else {
            "e2e-clean"
        }
    }
    fn budget(&self, tier: Tier) -> usize {
        match (tier, self.faulty) {
            (Tier::Quick, false) => 10_000,
            (Tier::Quick, true) => 4000,
            (Tier::Thorough, false) => 2_000_000,
            (Tier::Thorough, true) => 750_000,
        }
    }
    fn generate(&self, seed: u64, index: usize, _tier: Tier) -> Plan {
        gen_plan(seed, index, self.faulty)
    }
    fn execute(&self, plan: &Plan, trace: bool) -> Exec {
        execute(plan, trace)
    }
    fn faulty(&self) -> bool {
        self.faulty
    }
    fn shrink(&self, plan: &Plan) -> Vec<Plan> {
        let v = serde_json::to_value(plan).unwrap();
        let mut c = shrink_net(&v, "/net");
        for k in ["/bidi", "/back"] {
            if let Some(x) = set_ptr(&v, k, serde_json::json!(false)) {
                c.push(x);
            }
        }
        c.into_iter().filter_map(|v| serde_json::from_value::<Plan>(v).ok()).filter(|p| p.bidi || !p.back).collect()
    }
}

pub fn def() -> PropertyDef {
    PropertyDef {
        id: "C06",
        scenarios: vec![Box::new(Typed(C06E2E { faulty: false })), Box::new(Typed(C06E2E { faulty: true }))],
        rule: "Each run: real client and server, one stream in a generated role (client/server-opened x uni/bidi x direction), codes cycling through the boundaries of every varint length (0, 63, 64, 16383, 16384, 2^30-1, 2^30, 2^62-2, 2^62-1) and random 62-bit values, one of four histories: (reset) write 0..50 kB, optionally begin finishing, optionally let the network settle, reset(c) — the reader must see a prefix of the written bytes and then Reset(c), or, only if finishing began first, possibly everything and end-of-stream; a reset issued while that finish() attempt is still pending (FIN unacknowledged) must itself be accepted; (stop) the reader reads 0..3000 bytes and stops with c while the writer writes — every writer error must be Stopped(c), and once the stop has certainly arrived a further write, stopped(), finish(), stopped() again, another write and - a few round trips later - stopped(), finish() and write once more must all report Stopped(c); (finish) all bytes then end-of-stream, finish Ok, stopped() afterwards = Closed; (reset while queued, clean batch only) 1-9 further streams are opened, written to and reset with distinct codes while nobody accepts; each must afterwards be returned by accept and read Reset(its code); (unfinished, clean batch only) the writer writes 0..5000 bytes and never finishes, then the connection is closed on the reader's or on the writer's side: the reader - in a pending read and in a later one - must get an error, never a clean end-of-stream; (finish under partition, clean batch only) with the data or the acknowledgement direction blocked finish() must still be pending after 10 s simulated and complete Ok after the heal - also when the FIN had already been queued by an earlier finish() future that was dropped by a timeout, or by tokio's AsyncWriteExt::shutdown. Fault batch: loss / duplication / reordering. Non-trivial = the history ran to its observation point (and a fault fired in the fault batch); distinct = distinct plan hashes.",
        assumptions: vec![
            "after stop the model allows every outcome QUIC allows for writes racing the signal; only writes issued after network quiescence are required to fail",
            "quinn/rustls/tokio executed for real but trusted; current-thread runtime",
        ],
        real_components: vec!["wtransport", "wtransport-proto", "quinn", "quinn-proto", "rustls", "ring", "tokio scheduler + timer wheel (paused clock)"],
        stub_components: vec!["UDP sockets (SimNet, with directional partitions)", "OS clock"],
    }
}
