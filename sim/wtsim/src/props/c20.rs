//! C20 — configuration is honoured (timer, policy and reload part).
//!
//! The subject is the clock: idle timeout, keep-alive, migration (NAT rebind), ALPN policy and
//! configuration reload, through every builder path that does not need a kernel socket. The
//! IpBindConfig -> (address, IPV6_V6ONLY) mapping, pre-bound sockets and `rebind = true` need
//! real OS sockets; `bind_socket()` has no seam and the simulator never executes it.

use crate::core::*;
use crate::harness::{self, EpKnobs};
use crate::rawpeer as rp;
use crate::rng::Rng;
use crate::simnet::{NetCfg, SimNet};
use crate::simrt::{self, RtKnobs};
use crate::sut;
use serde::{Deserialize, Serialize};
use std::net::SocketAddr;
use std::sync::{Arc, Mutex};
use std::time::Duration;
use wtransport::error::ConnectionError;
use wtransport::quinn;
use wtransport::tls::Sha256Digest;
use wtransport::{ClientConfig, Endpoint, Identity, ServerConfig};

// ---- builder paths ----------------------------------------------------------------------------

fn idle(ms: Option<u64>) -> Option<Duration> {
    ms.map(Duration::from_millis)
}

/// Server configuration through builder path `path` (0..=4) with the given timer settings.
const ORDERS: [[u8; 3]; 6] = [[0, 1, 2], [0, 2, 1], [1, 0, 2], [1, 2, 0], [2, 0, 1], [2, 1, 0]];

/// Applies the three server-side setters in the order `ORDERS[order % 6]` (0 = idle timeout,
/// 1 = keep-alive, 2 = migration): no setter may undo what an earlier one configured.
fn apply_server(
    mut b: wtransport::config::ServerConfigBuilder<wtransport::config::states::WantsTransportConfigServer>,
    order: u8,
    idle_ms: Option<u64>,
    keep_alive_ms: Option<u64>,
    migration: bool,
) -> wtransport::config::ServerConfigBuilder<wtransport::config::states::WantsTransportConfigServer> {
    for step in ORDERS[order as usize % 6] {
        b = match step {
            0 => b.max_idle_timeout(idle(idle_ms)).expect("valid idle timeout"),
            1 => b.keep_alive_interval(idle(keep_alive_ms)),
            _ => b.allow_migration(migration),
        };
    }
    b
}

thread_local! {
    /// order in which `server_cfg*` applies the builder's setters (set per run by the scenario)
    static SETTER_ORDER: std::cell::Cell<u8> = const { std::cell::Cell::new(0) };
}

pub fn set_setter_order(o: u8) {
    SETTER_ORDER.with(|c| c.set(o));
}

pub fn server_cfg(path: u8, addr: SocketAddr, identity: Identity, idle_ms: Option<u64>, keep_alive_ms: Option<u64>, migration: bool, seed: [u8; 32]) -> ServerConfig {
    server_cfg_d(path, addr, identity, idle_ms, keep_alive_ms, migration, seed, false)
}

/// `decoy`: other values are configured first (earlier builder calls, or the custom transport
/// configuration handed to the builder) and then overridden by the requested ones - the last
/// explicit setting is the one that must apply.
#[allow(clippy::too_many_arguments)]
pub fn server_cfg_d(path: u8, addr: SocketAddr, identity: Identity, idle_ms: Option<u64>, keep_alive_ms: Option<u64>, migration: bool, seed: [u8; 32], decoy: bool) -> ServerConfig {
    let b = ServerConfig::builder().with_bind_address(addr);
    if decoy {
        let d_idle = Some(Duration::from_millis(7_000));
        let d_ka = Some(Duration::from_millis(400));
        let mut tc = quinn::TransportConfig::default();
        tc.max_idle_timeout(d_idle.map(|d| quinn::IdleTimeout::try_from(d).unwrap()));
        tc.keep_alive_interval(d_ka);
        let w = match path % 4 {
            0 => b.with_identity(identity).max_idle_timeout(d_idle).expect("valid").keep_alive_interval(d_ka),
            1 => b.with_custom_tls(wtransport::tls::server::build_default_tls_config(identity)).keep_alive_interval(d_ka).max_idle_timeout(d_idle).expect("valid"),
            2 => b.with_custom_transport(identity, tc),
            _ => b.with_custom_tls_and_transport(wtransport::tls::server::build_default_tls_config(identity), tc),
        };
        let mut cfg = apply_server(w.allow_migration(!migration), SETTER_ORDER.with(|c| c.get()), idle_ms, keep_alive_ms, migration).build();
        cfg.quic_endpoint_config_mut().rng_seed(Some(seed));
        return cfg;
    }
    let mut cfg = match path {
        0 => apply_server(b.with_identity(identity), SETTER_ORDER.with(|c| c.get()), idle_ms, keep_alive_ms, migration).build(),
        1 => apply_server(b.with_custom_tls(wtransport::tls::server::build_default_tls_config(identity)), SETTER_ORDER.with(|c| c.get()), idle_ms, keep_alive_ms, migration).build(),
        2 => {
            let mut tc = quinn::TransportConfig::default();
            tc.max_idle_timeout(idle(idle_ms).map(|d| quinn::IdleTimeout::try_from(d).unwrap()));
            tc.keep_alive_interval(idle(keep_alive_ms));
            b.with_custom_transport(identity, tc).allow_migration(migration).build()
        }
        3 => {
            let mut tc = quinn::TransportConfig::default();
            tc.max_idle_timeout(idle(idle_ms).map(|d| quinn::IdleTimeout::try_from(d).unwrap()));
            tc.keep_alive_interval(idle(keep_alive_ms));
            b.with_custom_tls_and_transport(wtransport::tls::server::build_default_tls_config(identity), tc).allow_migration(migration).build()
        }
        _ => {
            let mut tc = quinn::TransportConfig::default();
            tc.max_idle_timeout(idle(idle_ms).map(|d| quinn::IdleTimeout::try_from(d).unwrap()));
            tc.keep_alive_interval(idle(keep_alive_ms));
            let crypto = quinn::crypto::rustls::QuicServerConfig::try_from(wtransport::tls::server::build_default_tls_config(identity)).unwrap();
            let mut qc = quinn::ServerConfig::with_crypto(Arc::new(crypto));
            qc.transport_config(Arc::new(tc));
            qc.migration(migration);
            b.build_with_quic_config(qc)
        }
    };
    cfg.quic_endpoint_config_mut().rng_seed(Some(seed));
    cfg
}

pub fn client_cfg(path: u8, addr: SocketAddr, pin: Option<Sha256Digest>, idle_ms: Option<u64>, keep_alive_ms: Option<u64>, seed: [u8; 32]) -> ClientConfig {
    client_cfg_d(path, addr, pin, idle_ms, keep_alive_ms, seed, false)
}

pub fn client_cfg_d(path: u8, addr: SocketAddr, pin: Option<Sha256Digest>, idle_ms: Option<u64>, keep_alive_ms: Option<u64>, seed: [u8; 32], decoy: bool) -> ClientConfig {
    let b = ClientConfig::builder().with_bind_address(addr);
    if decoy {
        let d_idle = Some(Duration::from_millis(7_000));
        let d_ka = Some(Duration::from_millis(400));
        let mut tc = quinn::TransportConfig::default();
        tc.max_idle_timeout(d_idle.map(|d| quinn::IdleTimeout::try_from(d).unwrap()));
        tc.keep_alive_interval(d_ka);
        let w = match path % 4 {
            0 => b.with_no_cert_validation().max_idle_timeout(d_idle).expect("valid").keep_alive_interval(d_ka),
            1 => b.with_custom_tls(harness::no_verify_client_tls()).keep_alive_interval(d_ka).max_idle_timeout(d_idle).expect("valid"),
            2 => b.with_custom_tls_and_transport(harness::no_verify_client_tls(), tc),
            _ => match pin {
                Some(h) => b.with_server_certificate_hashes([h]).max_idle_timeout(d_idle).expect("valid").keep_alive_interval(d_ka),
                None => b.with_no_cert_validation().keep_alive_interval(d_ka),
            },
        };
        let mut cfg = w.max_idle_timeout(idle(idle_ms)).expect("valid idle timeout").keep_alive_interval(idle(keep_alive_ms)).build();
        cfg.quic_endpoint_config_mut().rng_seed(Some(seed));
        return cfg;
    }
    let mut cfg = match path {
        0 => b.with_no_cert_validation().max_idle_timeout(idle(idle_ms)).expect("valid idle timeout").keep_alive_interval(idle(keep_alive_ms)).build(),
        1 => b.with_custom_tls(harness::no_verify_client_tls()).max_idle_timeout(idle(idle_ms)).expect("valid idle timeout").keep_alive_interval(idle(keep_alive_ms)).build(),
        2 => {
            let mut tc = quinn::TransportConfig::default();
            tc.max_idle_timeout(idle(idle_ms).map(|d| quinn::IdleTimeout::try_from(d).unwrap()));
            tc.keep_alive_interval(idle(keep_alive_ms));
            b.with_custom_tls_and_transport(harness::no_verify_client_tls(), tc).build()
        }
        3 => match pin {
            Some(h) => b.with_server_certificate_hashes([h]).max_idle_timeout(idle(idle_ms)).expect("valid idle timeout").keep_alive_interval(idle(keep_alive_ms)).build(),
            None => b.with_no_cert_validation().max_idle_timeout(idle(idle_ms)).expect("valid idle timeout").keep_alive_interval(idle(keep_alive_ms)).build(),
        },
        _ => {
            let mut tc = quinn::TransportConfig::default();
            tc.max_idle_timeout(idle(idle_ms).map(|d| quinn::IdleTimeout::try_from(d).unwrap()));
            tc.keep_alive_interval(idle(keep_alive_ms));
            let crypto = quinn::crypto::rustls::QuicClientConfig::try_from(harness::no_verify_client_tls()).unwrap();
            let mut qc = quinn::ClientConfig::new(Arc::new(crypto));
            qc.transport_config(Arc::new(tc));
            b.build_with_quic_config(qc)
        }
    };
    cfg.quic_endpoint_config_mut().rng_seed(Some(seed));
    cfg
}

/// A P-256 identity valid around the real clock (the pinning verifier and rustls read it).
fn p256_identity() -> Identity {
    Identity::self_signed(["localhost", "10.0.0.1"]).expect("self signed")
}

// ---- (1) idle timeout / keep-alive -----------------------------------------------------------------

#[derive(Serialize, Deserialize, Clone, Debug, PartialEq)]
pub enum Situation {
    /// nobody sends anything; the network is healthy
    IdleHealthy,
    /// the link is cut in both directions at `at_ms` after establishment
    Blackhole { at_ms: u64 },
}

#[derive(Serialize, Deserialize, Clone, Debug)]
pub struct TimerPlan {
    pub seed: u64,
    pub rt: RtKnobs,
    pub net: NetCfg,
    pub client_idle_ms: Option<u64>,
    pub server_idle_ms: Option<u64>,
    pub client_keep_alive_ms: Option<u64>,
    pub server_keep_alive_ms: Option<u64>,
    pub client_path: u8,
    pub server_path: u8,
    pub situation: Situation,
    /// bit 0: the client, bit 1: the server configures other timer values first (see `server_cfg_d`)
    #[serde(default)]
    pub decoy: u8,
    /// order of the server builder's setter calls (see `apply_server`)
    #[serde(default)]
    pub order: u8,
}

const IDLES: [Option<u64>; 8] = [None, Some(1_000), Some(2_500), Some(10_000), Some(30_000), Some(120_000), Some(600_000), Some(3_600_000)];

pub fn gen_timer(seed: u64, _index: usize) -> TimerPlan {
    let mut rng = Rng::new(seed, "c20-timer");
    let mut net = NetCfg::clean(rng.next_u64());
    net.lat_min_us = *rng.pick(&[500u64, 5_000, 25_000]);
    let ci = *rng.pick(&IDLES);
    let si = *rng.pick(&IDLES);
    let eff = [ci, si].iter().flatten().min().copied();
    let ka = |rng: &mut Rng| -> Option<u64> {
        match (rng.below(3), eff) {
            (0, Some(e)) => Some((e / 4).max(200)), // well inside the effective timeout
            _ => None,
        }
    };
    let cka = ka(&mut rng);
    let ska = if cka.is_none() { ka(&mut rng) } else { None };
    TimerPlan {
        seed,
        rt: RtKnobs::from_rng(&mut rng),
        net,
        client_idle_ms: ci,
        server_idle_ms: si,
        client_keep_alive_ms: cka,
        server_keep_alive_ms: ska,
        client_path: rng.below(5) as u8,
        server_path: rng.below(5) as u8,
        situation: if rng.coin() { Situation::IdleHealthy } else { Situation::Blackhole { at_ms: *rng.pick(&[0u64, 10, 700, 5_000]) } },
        decoy: if rng.chance_pm(350) { rng.range(1, 3) as u8 } else { 0 },
        order: rng.below(6) as u8,
    }
}

pub fn exec_timer(p: &TimerPlan, trace: bool) -> Exec {
    let mut ex = Exec::new();
    let p = Arc::new(p.clone());
    let p2 = p.clone();
    let netslot: Arc<Mutex<Option<SimNet>>> = Arc::new(Mutex::new(None));
    let ns2 = netslot.clone();
    let out = simrt::run(&p.rt, p.seed, Duration::from_secs(6 * 3600), move || async move {
        let p = p2;
        set_setter_order(p.order_or_zero());
        let net = SimNet::new(p.net.clone(), trace);
        *ns2.lock().unwrap() = Some(net.clone());
        let mut r = Rng::new(p.seed, "c20-endpoints");
        let saddr: SocketAddr = harness::SERVER_ADDR.parse().unwrap();
        let caddr: SocketAddr = harness::CLIENT_ADDR.parse().unwrap();
        let identity = p256_identity();
        let pin = identity.certificate_chain().as_slice()[0].hash();
        let (sep, ssock) = harness::server_on(&net, server_cfg_d(p.server_path, saddr, identity, p.server_idle_ms, p.server_keep_alive_ms, true, r.seed32(), p.decoy & 2 != 0), saddr);
        let (cep, csock) = harness::client_on(&net, client_cfg_d(p.client_path, caddr, Some(pin), p.client_idle_ms, p.client_keep_alive_ms, r.seed32(), p.decoy & 1 != 0), caddr);
        let pair = harness::Pair { net: net.clone(), server_ep: sep, client_ep: cep, server_sock: ssock, client_sock: csock };
        let (cconn, sconn) = harness::establish(&pair, &harness::default_url()).await?;
        let alpn_ok = cconn.handshake_data().alpn() == Some(&b"h3"[..]) && sconn.handshake_data().alpn() == Some(&b"h3"[..]);
        net.quiesce(Duration::from_millis(100), Duration::from_secs(5)).await;
        let t_est = net.now_us();
        if let Situation::Blackhole { at_ms } = p.situation {
            tokio::time::sleep(Duration::from_millis(at_ms)).await;
            net.partition(&pair.client_sock, &pair.server_sock, true);
        }
        let t0 = net.now_us();
        let sent0 = net.stats().sent;
        let eff = [p.client_idle_ms, p.server_idle_ms].iter().flatten().min().copied();
        let keep_alive = p.client_keep_alive_ms.is_some() || p.server_keep_alive_ms.is_some();
        // QUIC restarts the idle timer when the first ack-eliciting packet after a receipt is
        // sent (RFC 9000 10.1): a keep-alive into a black hole legitimately postpones the
        // timeout by up to one keep-alive interval
        let ka_ms = p.client_keep_alive_ms.or(p.server_keep_alive_ms).unwrap_or(0);
        let watch = match (eff, &p.situation, keep_alive) {
            (None, _, _) => Duration::from_secs(3600),
            (Some(e), Situation::IdleHealthy, true) => Duration::from_millis((10 * e).min(4 * 3600 * 1000)),
            (Some(e), _, _) => Duration::from_millis(e + ka_ms) + Duration::from_secs(40),
        };
        let c2 = cconn.clone();
        let s2 = sconn.clone();
        let both = async {
            let a = async {
                let e = c2.closed().await;
                (e, tokio::time::Instant::now())
            };
            let b = async {
                let e = s2.closed().await;
                (e, tokio::time::Instant::now())
            };
            tokio::join!(a, b)
        };
        let start = tokio::time::Instant::now();
        // elapsed times are measured from the end of the handshake exchange (the last moment
        // both idle timers were certainly restarted)
        let since_est = ((net.now_us() - t_est) / 1000) as u64;
        let res = tokio::time::timeout(watch, both).await.ok().map(|((ce, ct), (se, st))| (ce, (ct - start).as_millis() as u64 + since_est, se, (st - start).as_millis() as u64 + since_est));
        // without a close: is the connection really alive? (a datagram must still get through)
        let mut alive = None;
        if res.is_none() && matches!(p.situation, Situation::IdleHealthy) {
            let got = async {
                let _ = cconn.send_datagram(b"still-alive");
                tokio::time::timeout(Duration::from_secs(5), sconn.receive_datagram()).await.map(|r| r.is_ok()).unwrap_or(false)
            };
            alive = Some(got.await);
        }
        let sent = net.stats().sent - sent0;
        let _ = (t_est, t0);
        drop(pair);
        Ok::<_, String>((res, alive, sent, eff, keep_alive, alpn_ok, ka_ms))
    });
    sut::finish_exec(&mut ex, &netslot, trace);
    if !out.panics.is_empty() {
        ex.violation("C20/panic", out.panics.join(" | "));
        return ex;
    }
    match out.value {
        None => ex.violation("C20/run-did-not-finish", "exceeded 5 h simulated".into()),
        Some(Err(e)) => ex.violation("C20/setup", e),
        Some(Ok((res, alive, sent, eff, keep_alive, alpn_ok, ka_ms))) => {
            ex.nontrivial = true;
            let cfg = format!("client idle {:?} ka {:?} (path {}), server idle {:?} ka {:?} (path {}), {:?}", p.client_idle_ms, p.client_keep_alive_ms, p.client_path, p.server_idle_ms, p.server_keep_alive_ms, p.server_path, p.situation);
            if !alpn_ok {
                ex.violation("C20/alpn", format!("{cfg}: handshake_data().alpn() is not h3"));
                return ex;
            }
            match (&p.situation, eff, keep_alive) {
                (Situation::IdleHealthy, None, _) | (Situation::IdleHealthy, Some(_), true) => {
                    ex.probe("must_stay_alive", 1);
                    if let Some((ce, ct, se, st)) = &res {
                        ex.violation("C20/closed-although-configured-alive", format!("{cfg}: client closed after {ct} ms with {ce:?}, server after {st} ms with {se:?}"));
                    } else if alive != Some(true) {
                        ex.violation("C20/closed-although-configured-alive", format!("{cfg}: no close reported but a datagram no longer gets through"));
                    } else if keep_alive && eff.is_some() && sent == 0 {
                        ex.violation("C20/keep-alive-not-sent", format!("{cfg}: no datagram on the wire during the idle period"));
                    }
                }
                (_, Some(e), _) => {
                    ex.probe("must_time_out", 1);
                    match &res {
                        None => ex.violation("C20/idle-timeout-not-applied", format!("{cfg}: effective idle timeout {e} ms, but no close within {e} ms + one keep-alive interval + 40 s")),
                        Some((ce, ct, se, st)) => {
                            for (who, err, t) in [("client", ce, *ct), ("server", se, *st)] {
                                if !matches!(err, ConnectionError::TimedOut) {
                                    ex.violation("C20/idle-timeout-misreported", format!("{cfg}: {who} reported {err:?}"));
                                }
                                // measured from the start of the idle period / the cut; the timer may have been
                                // restarted by the last exchange, never earlier than the configured value minus
                                // what had already elapsed since establishment (<= 1 s of settling)
                                if t + 1_500 < e {
                                    ex.violation("C20/idle-timeout-too-early", format!("{cfg}: {who} timed out after {t} ms, effective timeout {e} ms"));
                                }
                                if t > e + ka_ms + 46_000 {
                                    ex.violation("C20/idle-timeout-too-late", format!("{cfg}: {who} timed out after {t} ms, effective timeout {e} ms"));
                                }
                            }
                        }
                    }
                }
                (Situation::Blackhole { .. }, None, _) => {
                    ex.probe("no_timeout_configured_blackhole", 1);
                    if let Some((ce, ct, _, _)) = &res {
                        if matches!(ce, ConnectionError::TimedOut) {
                            ex.violation("C20/timeout-without-idle-timeout", format!("{cfg}: client timed out after {ct} ms although no idle timeout is configured on either side"));
                        }
                    }
                }
            }
        }
    }
    ex
}

pub struct C20Timer;

impl TypedScenario for C20Timer {
    type Plan = TimerPlan;
    fn name(&self) -> &'static str {
        "timer-idle-keepalive"
    }
    fn budget(&self, tier: Tier) -> usize {
        match tier {
            Tier::Quick => 8000,
            Tier::Thorough => 1_000_000,
        }
    }
    fn generate(&self, seed: u64, index: usize, _tier: Tier) -> TimerPlan {
        gen_timer(seed, index)
    }
    fn execute(&self, plan: &TimerPlan, trace: bool) -> Exec {
        exec_timer(plan, trace)
    }
    fn faulty(&self) -> bool {
        true
    }
}

// ---- (2) representable idle timeouts -----------------------------------------------------------------

#[derive(Serialize, Deserialize, Clone, Debug)]
pub struct RangePlan {
    /// decimal string (JSON numbers stop at 64 bits)
    pub millis: String,
    pub server: bool,
}

pub fn exec_range(p: &RangePlan, _trace: bool) -> Exec {
    let mut ex = Exec::new();
    ex.nontrivial = true;
    let millis: u128 = p.millis.parse().unwrap_or(0);
    // Duration cannot hold more than u64::MAX seconds
    let secs = (millis / 1000).min(u64::MAX as u128) as u64;
    let nanos = ((millis % 1000) * 1_000_000) as u32;
    let d = Duration::new(secs, nanos);
    // the wire carries the timeout as a varint of milliseconds: representable iff < 2^62 ms
    let representable = d.as_millis() < (1u128 << 62);
    let r = std::panic::catch_unwind(|| {
        if p.server {
            ServerConfig::builder().with_bind_address("127.0.0.1:0".parse().unwrap()).with_identity(harness::fixed_identity()).max_idle_timeout(Some(d)).is_ok()
        } else {
            ClientConfig::builder().with_bind_address("127.0.0.1:0".parse().unwrap()).with_no_cert_validation().max_idle_timeout(Some(d)).is_ok()
        }
    });
    match r {
        Err(_) => ex.violation("C20/panic", format!("max_idle_timeout({d:?}) panicked")),
        Ok(ok) if ok != representable => ex.violation(
            "C20/idle-timeout-range",
            format!("max_idle_timeout({d:?}) on the {} builder returned {}, but the value is {}representable as a QUIC varint of milliseconds", if p.server { "server" } else { "client" }, if ok { "Ok" } else { "Err(InvalidIdleTimeout)" }, if representable { "" } else { "not " }),
        ),
        _ => {}
    }
    ex
}

pub struct C20Range;

const RANGE_MS: [u128; 14] = [0, 1, 999, 1000, 30_000, u32::MAX as u128, (1 << 53) - 1, (1 << 62) - 2, (1 << 62) - 1, 1 << 62, (1 << 62) + 1, 1 << 63, u64::MAX as u128, (u64::MAX as u128) * 1000];

impl TypedScenario for C20Range {
    type Plan = RangePlan;
    fn name(&self) -> &'static str {
        "idle-timeout-range"
    }
    fn budget(&self, tier: Tier) -> usize {
        RANGE_MS.len() * 2 + match tier {
            Tier::Quick => 1000,
            Tier::Thorough => 100_000,
        }
    }
    fn generate(&self, seed: u64, index: usize, _tier: Tier) -> RangePlan {
        let mut rng = Rng::new(seed, "c20-range");
        if index < RANGE_MS.len() * 2 {
            RangePlan { millis: RANGE_MS[index / 2].to_string(), server: index % 2 == 0 }
        } else {
            let bits = rng.range(1, 70);
            let millis = if bits >= 64 { (rng.next_u64() as u128) << (bits - 63) } else { (rng.next_u64() >> (64 - bits)) as u128 };
            RangePlan { millis: millis.to_string(), server: rng.coin() }
        }
    }
    fn execute(&self, plan: &RangePlan, trace: bool) -> Exec {
        exec_range(plan, trace)
    }
    fn exhaustive_prefix(&self, _tier: Tier) -> Option<usize> {
        Some(RANGE_MS.len() * 2)
    }
}

// ---- (3) migration (NAT rebind) -------------------------------------------------------------------------

#[derive(Serialize, Deserialize, Clone, Debug)]
pub struct MigPlan {
    pub seed: u64,
    pub rt: RtKnobs,
    pub net: NetCfg,
    pub allow: bool,
    pub server_path: u8,
    pub rebind_after_ms: u64,
    /// order of the builder's setter calls (see `apply_server`)
    #[serde(default)]
    pub order: u8,
}

pub fn exec_mig(p: &MigPlan, trace: bool) -> Exec {
    let mut ex = Exec::new();
    let p = Arc::new(p.clone());
    let p2 = p.clone();
    let netslot: Arc<Mutex<Option<SimNet>>> = Arc::new(Mutex::new(None));
    let ns2 = netslot.clone();
    let out = simrt::run(&p.rt, p.seed, Duration::from_secs(600), move || async move {
        let p = p2;
        set_setter_order(p.order_or_zero());
        let net = SimNet::new(p.net.clone(), trace);
        *ns2.lock().unwrap() = Some(net.clone());
        let mut r = Rng::new(p.seed, "c20-mig");
        let saddr: SocketAddr = harness::SERVER_ADDR.parse().unwrap();
        let caddr: SocketAddr = harness::CLIENT_ADDR.parse().unwrap();
        let (sep, ssock) = harness::server_on(&net, server_cfg(p.server_path, saddr, harness::fixed_identity(), Some(20_000), None, p.allow, r.seed32()), saddr);
        let (cep, csock) = harness::client_on(&net, client_cfg(0, caddr, None, Some(20_000), None, r.seed32()), caddr);
        let pair = harness::Pair { net: net.clone(), server_ep: sep, client_ep: cep, server_sock: ssock, client_sock: csock };
        let (cconn, sconn) = harness::establish(&pair, &harness::default_url()).await?;
        let before = sconn.remote_address();
        tokio::time::sleep(Duration::from_millis(p.rebind_after_ms)).await;
        // the client's NAT mapping changes: it is now seen as coming from another address
        let new_addr: SocketAddr = "10.0.9.9:41000".parse().unwrap();
        net.rebind(&pair.client_sock, new_addr);
        // traffic after the rebind
        let s2 = sconn.clone();
        let server_reads = tokio::spawn(async move {
            match tokio::time::timeout(Duration::from_secs(10), s2.accept_uni()).await {
                Ok(Ok(mut r)) => {
                    let mut buf = [0u8; 64];
                    match tokio::time::timeout(Duration::from_secs(10), r.read(&mut buf)).await {
                        Ok(Ok(Some(n))) => Some(buf[..n].to_vec()),
                        _ => None,
                    }
                }
                _ => None,
            }
        });
        let writer = async {
            if let Ok(Ok(o)) = tokio::time::timeout(Duration::from_secs(5), cconn.open_uni()).await {
                if let Ok(Ok(mut s)) = tokio::time::timeout(Duration::from_secs(5), o).await {
                    let _ = tokio::time::timeout(Duration::from_secs(5), s.write_all(b"after-rebind")).await;
                    let _ = tokio::time::timeout(Duration::from_secs(8), s.finish()).await;
                }
            }
        };
        writer.await;
        let got = server_reads.await.ok().flatten();
        let after = sconn.remote_address();
        drop(pair);
        Ok::<_, String>((before, after, got, new_addr))
    });
    sut::finish_exec(&mut ex, &netslot, trace);
    if !out.panics.is_empty() {
        ex.violation("C20/panic", out.panics.join(" | "));
        return ex;
    }
    match out.value {
        None => ex.violation("C20/run-did-not-finish", "exceeded 600 s simulated".into()),
        Some(Err(e)) => ex.violation("C20/setup", e),
        Some(Ok((before, after, got, new_addr))) => {
            ex.nontrivial = ex.net.rebinds > 0;
            let delivered = got.as_deref() == Some(&b"after-rebind"[..]);
            if p.allow {
                if !delivered {
                    ex.violation("C20/migration-not-honoured", format!("allow_migration(true) (server path {}): data sent after the NAT rebind was not delivered", p.server_path));
                } else if after != new_addr {
                    ex.violation("C20/migration-not-honoured", format!("allow_migration(true): remote_address() is {after} after the rebind to {new_addr} (was {before})"));
                }
            } else if delivered || after != before {
                ex.violation("C20/migration-not-refused", format!("allow_migration(false) (server path {}): delivered={delivered}, remote_address() {before} -> {after}", p.server_path));
            }
        }
    }
    ex
}

pub struct C20Mig;

impl TypedScenario for C20Mig {
    type Plan = MigPlan;
    fn name(&self) -> &'static str {
        "timer-migration"
    }
    fn budget(&self, tier: Tier) -> usize {
        match tier {
            Tier::Quick => 2000,
            Tier::Thorough => 250_000,
        }
    }
    fn generate(&self, seed: u64, index: usize, _tier: Tier) -> MigPlan {
        let mut rng = Rng::new(seed, "c20-migplan");
        let mut net = NetCfg::clean(rng.next_u64());
        net.lat_min_us = *rng.pick(&[500u64, 5_000]);
        // build_with_quic_config (path 4) takes migration from the prebuilt quinn config
        MigPlan { seed, rt: RtKnobs::from_rng(&mut rng), net, allow: index % 2 == 0, server_path: rng.below(5) as u8, rebind_after_ms: *rng.pick(&[0u64, 50, 2_000]), order: rng.below(6) as u8 }
    }
    fn execute(&self, plan: &MigPlan, trace: bool) -> Exec {
        exec_mig(plan, trace)
    }
    fn faulty(&self) -> bool {
        true
    }
}

// ---- (4) ALPN policy ----------------------------------------------------------------------------------------

#[derive(Serialize, Deserialize, Clone, Debug)]
pub struct AlpnPlan {
    pub seed: u64,
    pub rt: RtKnobs,
    pub server_under_test: bool,
    pub peer_alpn: String,
    pub path: u8,
}

pub fn exec_alpn(p: &AlpnPlan, trace: bool) -> Exec {
    let mut ex = Exec::new();
    let p = Arc::new(p.clone());
    let p2 = p.clone();
    let netslot: Arc<Mutex<Option<SimNet>>> = Arc::new(Mutex::new(None));
    let ns2 = netslot.clone();
    let out = simrt::run(&p.rt, p.seed, Duration::from_secs(120), move || async move {
        let p = p2;
        set_setter_order(p.order_or_zero());
        let net = SimNet::new(NetCfg::clean(p.seed), trace);
        *ns2.lock().unwrap() = Some(net.clone());
        let mut r = Rng::new(p.seed, "c20-alpn");
        if p.server_under_test {
            let saddr: SocketAddr = harness::SERVER_ADDR.parse().unwrap();
            let (sep, _ss) = harness::server_on(&net, server_cfg(p.path, saddr, harness::fixed_identity(), Some(10_000), None, true, r.seed32()), saddr);
            let (rep, _rs) = rp::raw_client_endpoint(&net, rp::RAW_CLIENT_ADDR.parse().unwrap(), sut::raw_transport(), r.seed32(), p.peer_alpn.as_bytes());
            let offered = Arc::new(Mutex::new(false));
            let o2 = offered.clone();
            tokio::spawn(async move {
                let inc = sep.accept().await;
                if inc.await.is_ok() {
                    *o2.lock().unwrap() = true;
                }
                std::future::pending::<()>().await;
                drop(sep);
            });
            let res = match rep.connect(saddr, "localhost") {
                Ok(c) => tokio::time::timeout(Duration::from_secs(30), c).await.map(|r| r.map(|_| ()).map_err(|e| format!("{e:?}"))).unwrap_or(Err("handshake pending 30 s".into())),
                Err(e) => Err(format!("{e:?}")),
            };
            tokio::time::sleep(Duration::from_secs(2)).await;
            let off = *offered.lock().unwrap();
            Ok::<_, String>((res.is_ok(), off))
        } else {
            let raddr: SocketAddr = rp::RAW_SERVER_ADDR.parse().unwrap();
            // raw server that only speaks `peer_alpn`
            let sock = net.socket(raddr);
            let mut tls = wtransport::tls::server::build_default_tls_config(harness::fixed_identity());
            tls.alpn_protocols = vec![p.peer_alpn.as_bytes().to_vec()];
            let crypto = quinn::crypto::rustls::QuicServerConfig::try_from(tls).unwrap();
            let rep = quinn::Endpoint::new_with_abstract_socket(quinn::EndpointConfig::default(), Some(quinn::ServerConfig::with_crypto(Arc::new(crypto))), sock, harness::tokio_runtime()).unwrap();
            let rep2 = rep.clone();
            let raw_ok = tokio::spawn(async move {
                match rep2.accept().await {
                    Some(inc) => tokio::time::timeout(Duration::from_secs(30), inc).await.map(|r| r.is_ok()).unwrap_or(false),
                    None => false,
                }
            });
            let caddr: SocketAddr = harness::CLIENT_ADDR.parse().unwrap();
            let (cep, _cs) = harness::client_on(&net, client_cfg(p.path, caddr, None, Some(10_000), None, r.seed32()), caddr);
            let res = tokio::time::timeout(Duration::from_secs(40), cep.connect(format!("https://{}/alpn", rp::RAW_SERVER_ADDR))).await;
            let session = matches!(res, Ok(Ok(_)));
            let quic_up = raw_ok.await.unwrap_or(false);
            drop(rep);
            Ok::<_, String>((quic_up, session))
        }
    });
    sut::finish_exec(&mut ex, &netslot, trace);
    if !out.panics.is_empty() {
        ex.violation("C20/panic", out.panics.join(" | "));
        return ex;
    }
    match out.value {
        None => ex.violation("C20/run-did-not-finish", "exceeded 120 s simulated".into()),
        Some(Err(e)) => ex.violation("C20/setup", e),
        Some(Ok((quic_up, session))) => {
            ex.nontrivial = true;
            let is_h3 = p.peer_alpn == "h3";
            if !is_h3 && (quic_up || session) {
                ex.violation(
                    "C20/alpn-not-enforced",
                    format!("peer offering only ALPN {:?} against the {} (builder path {}): QUIC handshake completed = {quic_up}, session produced = {session}", p.peer_alpn, if p.server_under_test { "server" } else { "client" }, p.path),
                );
            }
            if is_h3 && !quic_up {
                ex.violation("C20/alpn-h3-refused", format!("peer offering h3 was refused (path {})", p.path));
            }
        }
    }
    ex
}

pub struct C20Alpn;

const ALPNS: [&str; 7] = ["h3", "h2", "hq-interop", "h3-29", "h3 ", "H3", "http/1.1"];

impl TypedScenario for C20Alpn {
    type Plan = AlpnPlan;
    fn name(&self) -> &'static str {
        "policy-alpn"
    }
    fn budget(&self, _tier: Tier) -> usize {
        ALPNS.len() * 2 * 5
    }
    fn generate(&self, seed: u64, index: usize, _tier: Tier) -> AlpnPlan {
        let mut rng = Rng::new(seed, "c20-alpnplan");
        AlpnPlan { seed, rt: RtKnobs::from_rng(&mut rng), server_under_test: index % 2 == 0, peer_alpn: ALPNS[(index / 2) % ALPNS.len()].to_string(), path: ((index / 2 / ALPNS.len()) % 5) as u8 }
    }
    fn execute(&self, plan: &AlpnPlan, trace: bool) -> Exec {
        exec_alpn(plan, trace)
    }
    fn exhaustive_prefix(&self, _tier: Tier) -> Option<usize> {
        Some(ALPNS.len() * 2 * 5)
    }
}

// ---- (5) configuration reload ------------------------------------------------------------------------------

#[derive(Serialize, Deserialize, Clone, Debug)]
pub struct ReloadPlan {
    pub seed: u64,
    pub rt: RtKnobs,
    pub net: NetCfg,
    pub new_path: u8,
    pub traffic_before: usize,
    pub reloads: usize,
}

pub fn exec_reload(p: &ReloadPlan, trace: bool) -> Exec {
    let mut ex = Exec::new();
    let p = Arc::new(p.clone());
    let p2 = p.clone();
    let netslot: Arc<Mutex<Option<SimNet>>> = Arc::new(Mutex::new(None));
    let ns2 = netslot.clone();
    let out = simrt::run(&p.rt, p.seed, Duration::from_secs(300), move || async move {
        let p = p2;
        set_setter_order(p.order_or_zero());
        let net = SimNet::new(p.net.clone(), trace);
        *ns2.lock().unwrap() = Some(net.clone());
        let mut r = Rng::new(p.seed, "c20-reload");
        let saddr: SocketAddr = harness::SERVER_ADDR.parse().unwrap();
        let id_a = harness::fixed_identity();
        let hash_a = id_a.certificate_chain().as_slice()[0].hash();
        let (sep, _ss) = harness::server_on(&net, server_cfg(0, saddr, id_a, Some(30_000), None, true, r.seed32()), saddr);
        let sep = Arc::new(sep);
        // server application: echo the first uni stream of every session back as a datagram-free uni stream
        let sep2 = sep.clone();
        tokio::spawn(async move {
            loop {
                let inc = sep2.accept().await;
                tokio::spawn(async move {
                    if let Ok(req) = inc.await {
                        if let Ok(conn) = req.accept().await {
                            while let Ok(mut rcv) = conn.accept_uni().await {
                                let mut buf = [0u8; 64];
                                if let Ok(Some(n)) = rcv.read(&mut buf).await {
                                    if let Ok(o) = conn.open_uni().await {
                                        if let Ok(mut s) = o.await {
                                            let _ = s.write_all(&buf[..n]).await;
                                            let _ = s.finish().await;
                                        }
                                    }
                                }
                            }
                        }
                    }
                });
            }
        });
        let echo = |conn: wtransport::Connection, tag: Vec<u8>| async move {
            let mut s = conn.open_uni().await.map_err(|e| format!("{e:?}"))?.await.map_err(|e| format!("{e:?}"))?;
            s.write_all(&tag).await.map_err(|e| format!("{e:?}"))?;
            s.finish().await.map_err(|e| format!("{e:?}"))?;
            let mut r = tokio::time::timeout(Duration::from_secs(20), conn.accept_uni()).await.map_err(|_| "echo timeout".to_string())?.map_err(|e| format!("{e:?}"))?;
            let mut buf = [0u8; 64];
            let n = r.read(&mut buf).await.map_err(|e| format!("{e:?}"))?.unwrap_or(0);
            if buf[..n] == tag[..] {
                Ok(())
            } else {
                Err(format!("echo mismatch {:?}", &buf[..n]))
            }
        };
        let (cep1, _c1) = harness::client_on(&net, client_cfg(0, "10.0.0.2:50000".parse().unwrap(), None, Some(30_000), None, r.seed32()), "10.0.0.2:50000".parse().unwrap());
        let c1 = cep1.connect(harness::default_url()).await.map_err(|e| format!("first connect: {e:?}"))?;
        let seen1 = c1.peer_identity().map(|ch| ch.as_slice()[0].hash());
        for i in 0..p.traffic_before {
            echo(c1.clone(), format!("before-{i}").into_bytes()).await.map_err(|e| format!("before reload: {e}"))?;
        }
        // reload with a new identity (and through another builder path); rebind = false
        let mut last_hash = hash_a.clone();
        for _ in 0..p.reloads.max(1) {
            let id_b = p256_identity();
            last_hash = id_b.certificate_chain().as_slice()[0].hash();
            // with rebind = false the new configuration's bind address is documented to be ignored:
            // it names an address this host does not have, so any attempt to bind it fails
            sep.reload_config(server_cfg(p.new_path, "203.0.113.7:1".parse().unwrap(), id_b, Some(30_000), None, true, r.seed32()), false).map_err(|e| format!("reload_config: {e:?}"))?;
        }
        let old_ok = echo(c1.clone(), b"after-reload-on-old-connection".to_vec()).await;
        let (cep2, _c2) = harness::client_on(&net, client_cfg(0, "10.0.0.5:50002".parse().unwrap(), None, Some(30_000), None, r.seed32()), "10.0.0.5:50002".parse().unwrap());
        let c2 = cep2.connect(harness::default_url()).await.map_err(|e| format!("connect after reload: {e:?}"))?;
        let seen2 = c2.peer_identity().map(|ch| ch.as_slice()[0].hash());
        let new_ok = echo(c2.clone(), b"new-connection".to_vec()).await;
        let old_ok2 = echo(c1.clone(), b"old-connection-again".to_vec()).await;
        Ok::<_, String>((seen1 == Some(hash_a), seen2 == Some(last_hash), old_ok, new_ok, old_ok2))
    });
    sut::finish_exec(&mut ex, &netslot, trace);
    if !out.panics.is_empty() {
        ex.violation("C20/panic", out.panics.join(" | "));
        return ex;
    }
    match out.value {
        None => ex.violation("C20/run-did-not-finish", "exceeded 300 s simulated".into()),
        Some(Err(e)) => ex.violation("C20/reload", e),
        Some(Ok((first_a, second_b, old_ok, new_ok, old_ok2))) => {
            ex.nontrivial = true;
            if !first_a {
                ex.violation("C20/reload", "the first connection did not see the original certificate".into());
            } else if !second_b {
                ex.violation("C20/reload-not-applied", format!("a connection made after reload_config (path {}) did not see the new certificate", p.new_path));
            } else if old_ok.is_err() || old_ok2.is_err() {
                ex.violation("C20/reload-disturbed-established", format!("the connection established before the reload stopped working: {old_ok:?} / {old_ok2:?}"));
            } else if new_ok.is_err() {
                ex.violation("C20/reload", format!("new connection unusable: {new_ok:?}"));
            }
        }
    }
    ex
}

pub struct C20Reload;

impl TypedScenario for C20Reload {
    type Plan = ReloadPlan;
    fn name(&self) -> &'static str {
        "policy-reload"
    }
    fn budget(&self, tier: Tier) -> usize {
        match tier {
            Tier::Quick => 1000,
            Tier::Thorough => 100_000,
        }
    }
    fn generate(&self, seed: u64, _index: usize, _tier: Tier) -> ReloadPlan {
        let mut rng = Rng::new(seed, "c20-reloadplan");
        let mut net = NetCfg::clean(rng.next_u64());
        net.lat_min_us = *rng.pick(&[500u64, 5_000]);
        ReloadPlan { seed, rt: RtKnobs::from_rng(&mut rng), net, new_path: rng.below(5) as u8, traffic_before: rng.usize(0, 2), reloads: rng.usize(1, 3) }
    }
    fn execute(&self, plan: &ReloadPlan, trace: bool) -> Exec {
        exec_reload(plan, trace)
    }
}

pub fn def() -> PropertyDef {
    let _ = EpKnobs::default();
    PropertyDef {
        id: "C20",
        scenarios: vec![Box::new(Typed(C20Timer)), Box::new(Typed(C20Range)), Box::new(Typed(C20Mig)), Box::new(Typed(C20Alpn)), Box::new(Typed(C20Reload))],
        rule: "timer-idle-keepalive: real client and server built through five builder paths each (identity / custom TLS / custom transport / custom TLS + transport / prebuilt QUIC config; client: no-cert-validation / custom TLS / custom TLS + transport / certificate hashes / prebuilt QUIC config), max_idle_timeout in {None, 1 s .. 1 h} on either side, keep-alive on neither or one side, and either an idle but healthy network or a two-way black hole 0..5 s after establishment. Oracle on the simulated clock: with an effective timeout e = min(client, server) and no keep-alive (or under the black hole) both sides report TimedOut no earlier than e - 1.5 s and no later than e + 40 s; with no timeout configured, or with keep-alive on a healthy network, the connection is still alive (a datagram gets through) after 1 h resp. 10 x e and keep-alive packets were seen on the wire; handshake_data().alpn() is h3 on both sides. idle-timeout-range: max_idle_timeout(d) on both builders for d at and around 2^62 ms and sampled 1..70-bit values: Ok iff d is below 2^62 ms (representable), never a panic. timer-migration: NAT rebind of the client after 0..2 s with allow_migration on / off through every server builder path: on -> data sent afterwards is delivered and remote_address() follows; off -> not delivered and the address does not change. policy-alpn: a raw peer offering only one of {h3, h2, hq-interop, h3-29, 'h3 ', H3, http/1.1} against the real server and the real client through every builder path (exhaustive 7 x 2 x 5): only h3 ever completes a handshake or yields a session. policy-reload: reload_config(new identity through any builder path, rebind = false) 1-3 times between two connections, with echo traffic on the first connection before and after: new connections see the new certificate, the established one keeps working. Not a simulation target: IpBindConfig presets, dual-stack socket options, pre-bound sockets and rebind = true (kernel sockets, no seam).",
        assumptions: vec![
            "time is the simulated clock (tokio paused clock): one simulated hour costs microseconds",
            "the socket-binding half of the property needs real OS sockets and is not claimed",
            "rustls reads the real clock once per handshake for certificate validity; every certificate used here is at least a day away from either end of its validity",
        ],
        real_components: vec!["wtransport (config builders, endpoint, driver)", "quinn", "quinn-proto (idle / keep-alive / migration logic)", "rustls", "ring", "tokio scheduler + timer wheel (paused clock)"],
        stub_components: vec!["UDP sockets (SimNet: black holes, NAT rebind)", "OS clock", "raw peer (policy-alpn)"],
    }
}

impl TimerPlan {
    fn order_or_zero(&self) -> u8 {
        self.order
    }
}
impl MigPlan {
    fn order_or_zero(&self) -> u8 {
        self.order
    }
}
impl AlpnPlan {
    fn order_or_zero(&self) -> u8 {
        0
    }
}
impl ReloadPlan {
    fn order_or_zero(&self) -> u8 {
        0
    }
}
