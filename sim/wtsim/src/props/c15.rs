//! C15 — all decoding paths agree and incomplete input is never consumed.
//!
//! UNIT-IO: the *source* is the simulated part. The same bytes go through the one-shot
//! (slice), buffered (`BufferReader`) and asynchronous (`SimReader`: PRNG chunking, Pending
//! with and without wake-ups, FIN / reset / not-connected at a generated offset) decoders of
//! frames and stream headers, and through the `read_frame*` triples of the four readable
//! stream typestates, whose yielded frame sequences are also compared with a rule table
//! (the sans-IO half of C12) and must be transparent to unknown frames (the sans-IO half of
//! C13).

use crate::core::*;
use crate::refcodec as rc;
use crate::rng::Rng;
use crate::simio::{drive, End, SimReader};
use serde::{Deserialize, Serialize};
use wtransport_proto::bytes::BufferReader;
use wtransport_proto::error::ErrorCode;
use wtransport_proto::frame::{Frame, FrameKind};
use wtransport_proto::stream_header::{StreamHeader, StreamKind};

#[derive(Serialize, Deserialize, Clone, Debug, PartialEq)]
pub enum Item {
    /// type + length + payload (payload bytes derived from `key`)
    Frame { ty: u64, ty_len: usize, payload_len: usize, len_len: usize, key: u64 },
    /// 0x41 + session id
    WtFrame { sid: u64, sid_len: usize },
    Header { ty: u64, ty_len: usize },
    WtHeader { sid: u64, sid_len: usize },
}

#[derive(Clone, Debug, PartialEq)]
pub enum Out {
    Value(String, usize),
    NeedMore,
    Err(String),
}

fn payload(key: u64, len: usize) -> Vec<u8> {
    crate::props::c01::pattern(key, len)
}

fn vlen(v: u64, want: usize) -> usize {
    if want == 0 {
        rc::varint_len(v)
    } else {
        want.max(rc::varint_len(v))
    }
}

pub fn encode(it: &Item) -> Vec<u8> {
    let mut o = Vec::new();
    match it {
        Item::Frame { ty, ty_len, payload_len, len_len, key } => {
            rc::put_varint_len(*ty, vlen(*ty, *ty_len), &mut o);
            rc::put_varint_len(*payload_len as u64, vlen(*payload_len as u64, *len_len), &mut o);
            o.extend_from_slice(&payload(*key, *payload_len));
        }
        Item::WtFrame { sid, sid_len } => {
            rc::put_varint(rc::FRAME_WT_STREAM, &mut o);
            rc::put_varint_len(*sid, vlen(*sid, *sid_len), &mut o);
        }
        Item::Header { ty, ty_len } => rc::put_varint_len(*ty, vlen(*ty, *ty_len), &mut o),
        Item::WtHeader { sid, sid_len } => {
            rc::put_varint(rc::STREAM_WT_UNI, &mut o);
            rc::put_varint_len(*sid, vlen(*sid, *sid_len), &mut o);
        }
    }
    o
}

fn frame_kind_name(ty: u64) -> Option<String> {
    match ty {
        0x00 => Some("Data".into()),
        0x01 => Some("Headers".into()),
        0x04 => Some("Settings".into()),
        t if rc::is_grease(t) => Some(format!("Exercise({t})")),
        _ => None,
    }
}

/// What the specifications + the implementation's documented limits say the decode is.
pub fn expected(it: &Item) -> Out {
    let len = encode(it).len();
    match it {
        Item::Frame { ty, payload_len, key, .. } => {
            if *payload_len > 4096 {
                return Out::Err("PayloadTooBig".into());
            }
            match frame_kind_name(*ty) {
                Some(k) => Out::Value(format!("{k}:{}", crate::harness::hex(&payload(*key, *payload_len))), len),
                None => Out::Err("UnknownFrame".into()),
            }
        }
        Item::WtFrame { sid, .. } => {
            if sid % 4 == 0 {
                Out::Value(format!("WebTransport:sid={sid}"), len)
            } else {
                Out::Err("InvalidSessionId".into())
            }
        }
        Item::Header { ty, .. } => match ty {
            0x00 => Out::Value("Control".into(), len),
            0x02 => Out::Value("QPackEncoder".into(), len),
            0x03 => Out::Value("QPackDecoder".into(), len),
            t if rc::is_grease(*t) => Out::Value(format!("Exercise({t})"), len),
            _ => Out::Err("UnknownStream".into()),
        },
        Item::WtHeader { sid, .. } => {
            if sid % 4 == 0 {
                Out::Value(format!("WebTransport:sid={sid}"), len)
            } else {
                Out::Err("InvalidSessionId".into())
            }
        }
    }
}

fn show_frame(f: &Frame) -> String {
    match f.kind() {
        FrameKind::Data => format!("Data:{}", crate::harness::hex(f.payload())),
        FrameKind::Headers => format!("Headers:{}", crate::harness::hex(f.payload())),
        FrameKind::Settings => format!("Settings:{}", crate::harness::hex(f.payload())),
        FrameKind::WebTransport => format!("WebTransport:sid={}", f.session_id().map(|s| s.into_u64()).unwrap_or(u64::MAX)),
        FrameKind::Exercise(id) => format!("Exercise({}):{}", id.into_inner(), crate::harness::hex(f.payload())),
    }
}

fn show_header(h: &StreamHeader) -> String {
    match h.kind() {
        StreamKind::Control => "Control".into(),
        StreamKind::QPackEncoder => "QPackEncoder".into(),
        StreamKind::QPackDecoder => "QPackDecoder".into(),
        StreamKind::WebTransport => format!("WebTransport:sid={}", h.session_id().map(|s| s.into_u64()).unwrap_or(u64::MAX)),
        StreamKind::Exercise(id) => format!("Exercise({})", id.into_inner()),
    }
}

fn is_frame(it: &Item) -> bool {
    matches!(it, Item::Frame { .. } | Item::WtFrame { .. })
}

/// The three paths on `bytes` (the source ends after `bytes` per `end`).
fn run_paths(it: &Item, bytes: &[u8], trailing: &[u8], rng: &mut Rng, end: End) -> (Out, Out, Out, usize, bool) {
    use wtransport_proto::frame::{IoReadError as FIo, ParseError as FP};
    use wtransport_proto::stream_header::{IoReadError as HIo, ParseError as HP};
    let mut full = bytes.to_vec();
    full.extend_from_slice(trailing);
    let max_chunk = *rng.pick(&[1usize, 1, 2, 3, 7, 64, 5000]);
    let pending_pm = *rng.pick(&[0u32, 100, 500, 800]);
    let mut reader = SimReader::new(full.clone(), rng.fork("reader"), max_chunk, pending_pm, if trailing.is_empty() { bytes.len() } else { full.len() }, end);
    let io_class = |e: &wtransport_proto::bytes::IoReadError| match e {
        wtransport_proto::bytes::IoReadError::ImmediateFin => "io:ImmediateFin".to_string(),
        wtransport_proto::bytes::IoReadError::UnexpectedFin => "io:UnexpectedFin".to_string(),
        wtransport_proto::bytes::IoReadError::Reset => "io:Reset".to_string(),
        wtransport_proto::bytes::IoReadError::NotConnected => "io:NotConnected".to_string(),
    };
    let (a, b, c, hung);
    if is_frame(it) {
        let fp = |e: &FP| match e {
            FP::UnknownFrame => "UnknownFrame",
            FP::InvalidSessionId => "InvalidSessionId",
            FP::PayloadTooBig => "PayloadTooBig",
        }
        .to_string();
        let mut s: &[u8] = &full[..if trailing.is_empty() { bytes.len() } else { full.len() }];
        let l0 = s.len();
        a = match Frame::read(&mut s) {
            Ok(Some(f)) => Out::Value(show_frame(&f), l0 - s.len()),
            Ok(None) => Out::NeedMore,
            Err(e) => Out::Err(fp(&e)),
        };
        let src = &full[..l0];
        let mut br = BufferReader::new(src);
        b = match Frame::read_from_buffer(&mut br) {
            Ok(Some(f)) => Out::Value(show_frame(&f), br.offset()),
            Ok(None) => {
                if br.offset() != 0 {
                    Out::Err(format!("buffered reader moved to {} on incomplete input", br.offset()))
                } else {
                    Out::NeedMore
                }
            }
            Err(e) => {
                if br.offset() != 0 {
                    Out::Err(format!("buffered reader moved to {} on error", br.offset()))
                } else {
                    Out::Err(fp(&e))
                }
            }
        };
        let r = drive(Frame::read_async(&mut reader), 2_000_000);
        hung = r.is_none();
        c = match r {
            None => Out::Err("async decoder did not finish".into()),
            Some(Ok(f)) => Out::Value(show_frame(&f), reader.pos),
            Some(Err(FIo::Parse(e))) => Out::Err(fp(&e)),
            Some(Err(FIo::IO(e))) => Out::Err(io_class(&e)),
        };
    } else {
        let hp = |e: &HP| match e {
            HP::UnknownStream => "UnknownStream",
            HP::InvalidSessionId => "InvalidSessionId",
        }
        .to_string();
        let mut s: &[u8] = &full[..if trailing.is_empty() { bytes.len() } else { full.len() }];
        let l0 = s.len();
        a = match StreamHeader::read(&mut s) {
            Ok(Some(h)) => Out::Value(show_header(&h), l0 - s.len()),
            Ok(None) => Out::NeedMore,
            Err(e) => Out::Err(hp(&e)),
        };
        let src = &full[..l0];
        let mut br = BufferReader::new(src);
        b = match StreamHeader::read_from_buffer(&mut br) {
            Ok(Some(h)) => Out::Value(show_header(&h), br.offset()),
            Ok(None) => {
                if br.offset() != 0 {
                    Out::Err(format!("buffered reader moved to {} on incomplete input", br.offset()))
                } else {
                    Out::NeedMore
                }
            }
            Err(e) => {
                if br.offset() != 0 {
                    Out::Err(format!("buffered reader moved to {} on error", br.offset()))
                } else {
                    Out::Err(hp(&e))
                }
            }
        };
        let r = drive(StreamHeader::read_async(&mut reader), 2_000_000);
        hung = r.is_none();
        c = match r {
            None => Out::Err("async decoder did not finish".into()),
            Some(Ok(h)) => Out::Value(show_header(&h), reader.pos),
            Some(Err(HIo::Parse(e))) => Out::Err(hp(&e)),
            Some(Err(HIo::IO(e))) => Out::Err(io_class(&e)),
        };
    }
    (a, b, c, reader.pos, hung)
}

#[derive(Serialize, Deserialize, Clone, Debug)]
pub struct Plan {
    pub seed: u64,
    pub item: Item,
    /// how many bytes of the encoding are available (>= its length: complete)
    pub avail: usize,
    pub end: u8,
    pub trailing: usize,
}

const INTERESTING_LENS: [usize; 14] = [0, 1, 2, 62, 63, 64, 65, 255, 1000, 4095, 4096, 4097, 5000, 16384];

pub fn gen_item(rng: &mut Rng) -> Item {
    let vl = |rng: &mut Rng| *rng.pick(&[0usize, 0, 0, 2, 4, 8]);
    match rng.below(10) {
        0..=4 => {
            let ty = match rng.below(8) {
                0 | 1 => 0x00,
                2 => 0x01,
                3 => 0x04,
                4 => rc::grease(match rng.below(3) {
                    0 => rng.range(0, 2),
                    1 => rng.range(3, 1 << 20),
                    _ => rng.range(1 << 30, (rc::VARINT_MAX - 0x21) / 0x1f),
                }),
                5 => *rng.pick(&[0x02u64, 0x03, 0x05, 0x07, 0x0d, 0x40, 0x42, 0x21 + 1]),
                _ => {
                    let t = rng.range(0x0e, rc::VARINT_MAX);
                    if rc::is_grease(t) || t == 0x41 {
                        0x0e
                    } else {
                        t
                    }
                }
            };
            let payload_len = if rng.coin() { *rng.pick(&INTERESTING_LENS) } else { rng.usize(0, 300) };
            Item::Frame { ty, ty_len: vl(rng), payload_len, len_len: vl(rng), key: rng.next_u64() }
        }
        5 | 6 => Item::WtFrame { sid: gen_sid(rng), sid_len: vl(rng) },
        7 | 8 => {
            let ty = match rng.below(6) {
                0 => 0x00,
                1 => 0x02,
                2 => 0x03,
                3 => rc::grease(rng.range(0, 1 << 40)),
                4 => *rng.pick(&[0x01u64, 0x04, 0x41, 0x53, 0x55]),
                _ => {
                    let t = rng.range(0x04, rc::VARINT_MAX);
                    if rc::is_grease(t) || t == 0x54 {
                        0x04
                    } else {
                        t
                    }
                }
            };
            Item::Header { ty, ty_len: vl(rng) }
        }
        _ => Item::WtHeader { sid: gen_sid(rng), sid_len: vl(rng) },
    }
}

fn gen_sid(rng: &mut Rng) -> u64 {
    let base = match rng.below(5) {
        0 => rng.range(0, 15),
        1 => rng.range(16, 4095),
        2 => rng.range(4096, 1 << 28),
        3 => rng.range(1 << 28, 1 << 60),
        _ => rng.range((1 << 62) - 64, rc::VARINT_MAX),
    };
    if rng.chance_pm(700) {
        base & !3
    } else {
        base
    }
}

fn io_faults(ex: &mut Exec) {
    let s = crate::simio::take_stats();
    ex.fault("read_returns_pending", s.pendings);
    ex.fault("read_pending_without_wakeup", s.pendings_without_wake);
    ex.fault("short_read", s.short_reads);
    ex.fault("source_ends_with_fin", s.ended_fin);
    ex.fault("source_ends_with_reset", s.ended_reset);
    ex.fault("source_ends_not_connected", s.ended_not_connected);
}

pub fn execute(p: &Plan, _trace: bool) -> Exec {
    let mut ex = Exec::new();
    let mut rng = Rng::new(p.seed, "c15-exec");
    let enc = encode(&p.item);
    let complete = p.avail >= enc.len();
    let avail = p.avail.min(enc.len());
    let end = [End::Fin, End::Reset, End::NotConnected][(p.end % 3) as usize];
    let trailing: Vec<u8> = if complete { (0..p.trailing).map(|i| 0xA0 | (i as u8 & 0x0f)).collect() } else { Vec::new() };
    ex.nontrivial = true;
    let guard = std::panic::catch_unwind(std::panic::AssertUnwindSafe(|| run_paths(&p.item, &enc[..avail], &trailing, &mut rng, end)));
    let (a, b, c, async_pos, hung) = match guard {
        Ok(x) => x,
        Err(_) => {
            ex.violation("C15/panic", format!("a decoder panicked on {:?} with {avail} of {} bytes", p.item, enc.len()));
            return ex;
        }
    };
    let what = format!("{:?} ({} of {} bytes available, source ends with {:?}, {} trailing bytes)", p.item, avail, enc.len(), end, trailing.len());
    if hung {
        ex.violation("C15/async-hangs", format!("{what}: the asynchronous decoder did not complete within 2M polls"));
        return ex;
    }
    let want = expected(&p.item);
    if complete {
        ex.probe("complete_inputs", 1);
        // all three paths agree with each other and with the independent expectation
        for (name, got) in [("one-shot", &a), ("buffered", &b), ("async", &c)] {
            if *got != want {
                ex.violation("C15/paths-disagree", format!("{what}: {name} decoder gave {got:?}, expected {want:?} (one-shot {a:?}, buffered {b:?}, async {c:?})"));
                return ex;
            }
        }
        // the async decoder never reads past the end of the encoding
        if matches!(want, Out::Value(..)) && async_pos != enc.len() {
            ex.violation("C15/async-over-read", format!("{what}: the asynchronous decoder consumed {async_pos} bytes from the source"));
        }
    } else {
        ex.probe("prefix_inputs", 1);
        // an error that is already determined by the prefix may be reported by all three;
        // otherwise: need-more / end-of-stream class, never a value, never another error
        let determinable = match (&want, &p.item) {
            (Out::Err(e), Item::WtFrame { .. }) | (Out::Err(e), Item::WtHeader { .. }) if e == "InvalidSessionId" => false, // needs the whole id
            (Out::Err(e), Item::Header { ty, ty_len }) if e == "UnknownStream" => avail >= vlen(*ty, *ty_len),
            (Out::Err(e), Item::Frame { ty, ty_len, payload_len, len_len, .. }) if e == "PayloadTooBig" => avail >= vlen(*ty, *ty_len) + vlen(*payload_len as u64, *len_len),
            _ => false,
        };
        if determinable {
            for (name, got) in [("one-shot", &a), ("buffered", &b), ("async", &c)] {
                if *got != want {
                    ex.violation("C15/paths-disagree", format!("{what}: {name} decoder gave {got:?}, the error {want:?} is already determined"));
                    return ex;
                }
            }
            return ex;
        }
        if a != Out::NeedMore || b != Out::NeedMore {
            ex.violation("C15/prefix-consumed", format!("{what}: proper prefix: one-shot gave {a:?}, buffered gave {b:?}; both must ask for more data"));
            return ex;
        }
        let want_async = match (end, avail) {
            (End::Fin, 0) => "io:ImmediateFin",
            (End::Fin, _) => "io:UnexpectedFin",
            (End::Reset, _) => "io:Reset",
            (End::NotConnected, _) => "io:NotConnected",
        };
        if c != Out::Err(want_async.into()) {
            ex.violation("C15/async-prefix", format!("{what}: asynchronous decoder gave {c:?}, expected {want_async}"));
        }
    }
    ex
}

pub struct C15Paths;

impl TypedScenario for C15Paths {
    type Plan = Plan;
    fn name(&self) -> &'static str {
        "unit-io-decoders"
    }
    fn budget(&self, tier: Tier) -> usize {
        match tier {
            Tier::Quick => 300_000,
            Tier::Thorough => 20_000_000,
        }
    }
    fn generate(&self, seed: u64, _index: usize, _tier: Tier) -> Plan {
        let mut rng = Rng::new(seed, "c15");
        let item = gen_item(&mut rng);
        let len = encode(&item).len();
        let avail = if rng.coin() {
            len
        } else if len <= 20 || rng.coin() {
            rng.usize(0, len.saturating_sub(1))
        } else {
            *rng.pick(&[0usize, 1, 2, 3, len - 1, len - 2, len / 2])
        };
        Plan { seed, item, avail, end: rng.below(3) as u8, trailing: *rng.pick(&[0usize, 1, 9]) }
    }
    fn execute(&self, plan: &Plan, trace: bool) -> Exec {
        let _ = crate::simio::take_stats();
        let mut ex = execute(plan, trace);
        io_faults(&mut ex);
        ex
    }
    fn faulty(&self) -> bool {
        true
    }
}

// ---- typestates: read_frame / read_frame_from_buffer / read_frame_async ------------------------------

#[derive(Serialize, Deserialize, Clone, Copy, Debug, PartialEq)]
pub enum Role {
    BiRemote,
    BiLocal,
    UniRemoteControl,
    Session,
}

#[derive(Serialize, Deserialize, Clone, Debug)]
pub struct TsPlan {
    pub seed: u64,
    pub role: Role,
    pub items: Vec<Item>,
    /// bytes cut off the end of the concatenation (0 = whole frames)
    pub cut: usize,
}

fn code_name(c: ErrorCode) -> String {
    format!("H3:{:#x}", c.to_code().into_inner())
}

/// Rule table for the typestates (RFC 9114 4.1, 7.2.x; WebTransport draft): Ok(rendering) or the
/// error code that ends the stream.
fn rule(role: Role, it: &Item, first: bool) -> Result<Option<String>, u64> {
    match expected(it) {
        Out::Err(e) if e == "UnknownFrame" => Ok(None), // skipped whole
        Out::Err(e) if e == "PayloadTooBig" => Err(rc::H3_EXCESSIVE_LOAD),
        Out::Err(_) => Err(rc::H3_ID_ERROR),
        Out::NeedMore => unreachable!(),
        Out::Value(v, _) => {
            let kind = v.split(|c| c == ':' || c == '(').next().unwrap().to_string();
            match (role, kind.as_str()) {
                (_, "Exercise") => Ok(Some(v)),
                (Role::BiRemote, "Data") | (Role::BiRemote, "Headers") => Ok(Some(v)),
                (Role::BiRemote, "Settings") => Err(rc::H3_FRAME_UNEXPECTED),
                (Role::BiRemote, "WebTransport") => {
                    if first {
                        Ok(Some(v))
                    } else {
                        Err(rc::H3_FRAME_ERROR)
                    }
                }
                (Role::BiLocal, "Data") | (Role::BiLocal, "Headers") | (Role::Session, "Data") | (Role::Session, "Headers") => Ok(Some(v)),
                (Role::BiLocal, _) | (Role::Session, _) => Err(rc::H3_FRAME_UNEXPECTED),
                (Role::UniRemoteControl, "Settings") => Ok(Some(v)),
                (Role::UniRemoteControl, _) => Err(rc::H3_FRAME_UNEXPECTED),
                _ => unreachable!(),
            }
        }
    }
}

enum Ts {
    BiRemote(wtransport_proto::stream::biremote::StreamBiRemoteH3),
    BiLocal(wtransport_proto::stream::bilocal::StreamBiLocalH3),
    Uni(wtransport_proto::stream::uniremote::StreamUniRemoteH3),
    Session(wtransport_proto::stream::session::StreamSession),
}

fn make_ts(role: Role) -> Ts {
    use wtransport_proto::stream::Stream;
    match role {
        Role::BiRemote => Ts::BiRemote(Stream::accept_bi().upgrade()),
        Role::BiLocal => Ts::BiLocal(Stream::open_bi().upgrade()),
        Role::UniRemoteControl => {
            let mut hdr: &[u8] = &[0x00];
            match Stream::accept_uni().upgrade(&mut hdr) {
                Ok(wtransport_proto::stream::uniremote::MaybeUpgradeH3::H3(s)) => Ts::Uni(s),
                _ => panic!("control stream header must upgrade"),
            }
        }
        Role::Session => Ts::Session(Stream::open_bi().upgrade().into_session(wtransport_proto::session::SessionRequest::new("https://example.test/").unwrap())),
    }
}

type Seq = (Vec<String>, String);

fn ts_sync(role: Role, data: &[u8], buffered: bool) -> Seq {
    let mut ts = make_ts(role);
    let mut out = Vec::new();
    let mut s: &[u8] = data;
    let mut br = BufferReader::new(data);
    loop {
        let r = if buffered {
            match &mut ts {
                Ts::BiRemote(t) => t.read_frame_from_buffer(&mut br),
                Ts::BiLocal(t) => t.read_frame_from_buffer(&mut br),
                Ts::Uni(t) => t.read_frame_from_buffer(&mut br),
                Ts::Session(t) => t.read_frame_from_buffer(&mut br),
            }
        } else {
            match &mut ts {
                Ts::BiRemote(t) => t.read_frame(&mut s),
                Ts::BiLocal(t) => t.read_frame(&mut s),
                Ts::Uni(t) => t.read_frame(&mut s),
                Ts::Session(t) => t.read_frame(&mut s),
            }
        };
        match r {
            Ok(Some(f)) => out.push(show_frame(&f)),
            Ok(None) => return (out, "need-more".into()),
            Err(c) => return (out, code_name(c)),
        }
    }
}

/// The same stream object is offered growing prefixes of the input (as a caller does that
/// buffers what it receives): every call either yields a frame, consuming exactly its bytes, or
/// asks for more without consuming anything and without changing what a later call decides.
fn ts_sync_incremental(role: Role, data: &[u8], buffered: bool, rng: &mut Rng) -> Seq {
    let mut ts = make_ts(role);
    let mut out = Vec::new();
    let mut consumed = 0usize;
    // stage ends: a few random prefix lengths (possibly repeated, possibly 0), then everything
    let mut stages: Vec<usize> = (0..rng.usize(1, 4)).map(|_| rng.usize(0, data.len())).collect();
    stages.sort();
    stages.push(data.len());
    for end in stages {
        loop {
            let avail = &data[consumed..end.max(consumed)];
            let (r, used) = if buffered {
                let mut br = BufferReader::new(avail);
                let r = match &mut ts {
                    Ts::BiRemote(t) => t.read_frame_from_buffer(&mut br),
                    Ts::BiLocal(t) => t.read_frame_from_buffer(&mut br),
                    Ts::Uni(t) => t.read_frame_from_buffer(&mut br),
                    Ts::Session(t) => t.read_frame_from_buffer(&mut br),
                };
                (r.map(|o| o.map(|f| show_frame(&f))), br.offset())
            } else {
                let mut sl: &[u8] = avail;
                let r = match &mut ts {
                    Ts::BiRemote(t) => t.read_frame(&mut sl),
                    Ts::BiLocal(t) => t.read_frame(&mut sl),
                    Ts::Uni(t) => t.read_frame(&mut sl),
                    Ts::Session(t) => t.read_frame(&mut sl),
                };
                (r.map(|o| o.map(|f| show_frame(&f))), avail.len() - sl.len())
            };
            match r {
                Ok(Some(f)) => {
                    out.push(f);
                    consumed += used;
                }
                Ok(None) => {
                    // the buffered reader commits only what was parsed in full (a skipped unknown
                    // frame may be consumed, an incomplete frame never); the slice reader is
                    // documented to leave its argument partially read, so the caller offers the
                    // same bytes again
                    if buffered {
                        consumed += used;
                    }
                    break;
                }
                Err(c) => return (out, code_name(c)),
            }
        }
    }
    (out, "need-more".into())
}

fn ts_async(role: Role, data: &[u8], rng: &mut Rng) -> Seq {
    use wtransport_proto::stream::IoReadError;
    let mut ts = make_ts(role);
    let mut out = Vec::new();
    let max_chunk = *rng.pick(&[1usize, 2, 5, 100, 5000]);
    let pending_pm = *rng.pick(&[0u32, 200, 700]);
    let mut reader = SimReader::new(data.to_vec(), rng.fork("ts"), max_chunk, pending_pm, data.len(), End::Fin);
    loop {
        let r = match &mut ts {
            Ts::BiRemote(t) => drive(t.read_frame_async(&mut reader), 5_000_000),
            Ts::BiLocal(t) => drive(t.read_frame_async(&mut reader), 5_000_000),
            Ts::Uni(t) => drive(t.read_frame_async(&mut reader), 5_000_000),
            Ts::Session(t) => drive(t.read_frame_async(&mut reader), 5_000_000),
        };
        match r {
            None => return (out, "hang".into()),
            Some(Ok(f)) => out.push(show_frame(&f)),
            Some(Err(IoReadError::H3(c))) => return (out, code_name(c)),
            Some(Err(IoReadError::IO(e))) => return (out, format!("io:{e:?}")),
        }
    }
}

pub fn exec_ts(p: &TsPlan, _trace: bool) -> Exec {
    let mut ex = Exec::new();
    ex.nontrivial = true;
    let mut rng = Rng::new(p.seed, "c15-ts");
    let mut data = Vec::new();
    let mut bounds = Vec::new();
    for it in &p.items {
        data.extend_from_slice(&encode(it));
        bounds.push(data.len());
    }
    let cut = p.cut.min(data.len());
    let data = &data[..data.len() - cut];
    // model: frames yielded until the first rule violation / incomplete frame
    let mut want: Vec<String> = Vec::new();
    let mut terminal = String::new();
    let mut first = true;
    let mut start = 0;
    for (i, it) in p.items.iter().enumerate() {
        let complete = bounds[i] <= data.len();
        if !complete {
            // an error already determined by the available prefix (oversize announced in the
            // header) may surface; otherwise the frame is simply incomplete
            let have = data.len() - start;
            if let Item::Frame { ty, ty_len, payload_len, len_len, .. } = it {
                if *payload_len > 4096 && have >= vlen(*ty, *ty_len) + vlen(*payload_len as u64, *len_len) {
                    terminal = format!("H3:{:#x}", rc::H3_EXCESSIVE_LOAD);
                }
            }
            if terminal.is_empty() {
                terminal = if have == 0 { "end-at-boundary".into() } else { "end-inside-frame".into() };
            }
            break;
        }
        match rule(p.role, it, first) {
            Ok(Some(v)) => want.push(v),
            Ok(None) => {}
            Err(code) => {
                terminal = format!("H3:{code:#x}");
                break;
            }
        }
        // any interpreted frame, GREASE included, ends "first frame" position; a skipped unknown
        // frame does not
        if !matches!(rule(p.role, it, first), Ok(None)) {
            first = false;
        }
        start = bounds[i];
    }
    if terminal.is_empty() {
        terminal = "end-at-boundary".into();
    }
    let guard = std::panic::catch_unwind(std::panic::AssertUnwindSafe(|| (ts_sync(p.role, data, false), ts_sync(p.role, data, true), ts_async(p.role, data, &mut rng))));
    let (a, b, c) = match guard {
        Ok(x) => x,
        Err(_) => {
            ex.violation("C15/panic", format!("typestate {:?} panicked on {:?}", p.role, p.items));
            return ex;
        }
    };
    let what = format!("typestate {:?}, frames {:?}, {} trailing bytes cut", p.role, p.items, cut);
    let sync_terminal = match terminal.as_str() {
        "end-at-boundary" | "end-inside-frame" => "need-more".to_string(),
        t => t.to_string(),
    };
    let async_terminal = match terminal.as_str() {
        "end-at-boundary" => "io:ImmediateFin".to_string(),
        "end-inside-frame" => format!("H3:{:#x}", rc::H3_FRAME_ERROR),
        t => t.to_string(),
    };
    let inc = std::panic::catch_unwind(std::panic::AssertUnwindSafe(|| (ts_sync_incremental(p.role, data, false, &mut rng), ts_sync_incremental(p.role, data, true, &mut rng))));
    let (d, e) = match inc {
        Ok(x) => x,
        Err(_) => {
            ex.violation("C15/panic", format!("typestate {:?} panicked on {:?} (growing prefixes)", p.role, p.items));
            return ex;
        }
    };
    for (name, got, term) in [
        ("read_frame", &a, &sync_terminal),
        ("read_frame_from_buffer", &b, &sync_terminal),
        ("read_frame_async", &c, &async_terminal),
        ("read_frame over growing prefixes on one stream object", &d, &sync_terminal),
        ("read_frame_from_buffer over growing prefixes on one stream object", &e, &sync_terminal),
    ] {
        if got.0 != want {
            ex.violation(
                "C15/typestate-frames",
                format!("{what}: {name} yielded {:?}, the rule table gives {:?}", got.0.iter().map(|s| &s[..s.len().min(24)]).collect::<Vec<_>>(), want.iter().map(|s| &s[..s.len().min(24)]).collect::<Vec<_>>()),
            );
            return ex;
        }
        if &got.1 != term {
            ex.violation("C15/typestate-terminal", format!("{what}: {name} ended with {:?}, expected {term:?} (model terminal {terminal})", got.1));
            return ex;
        }
    }
    ex
}

pub struct C15Typestates;

impl TypedScenario for C15Typestates {
    type Plan = TsPlan;
    fn name(&self) -> &'static str {
        "unit-io-typestates"
    }
    fn budget(&self, tier: Tier) -> usize {
        match tier {
            Tier::Quick => 150_000,
            Tier::Thorough => 10_000_000,
        }
    }
    fn generate(&self, seed: u64, index: usize, _tier: Tier) -> TsPlan {
        let mut rng = Rng::new(seed, "c15-tsplan");
        let role = [Role::BiRemote, Role::BiLocal, Role::UniRemoteControl, Role::Session][index % 4];
        let n = rng.usize(1, 3);
        let items: Vec<Item> = (0..n)
            .map(|_| loop {
                let it = gen_item(&mut rng);
                if is_frame(&it) {
                    // keep typestate inputs small
                    if let Item::Frame { ty, ty_len, payload_len, len_len, key } = it {
                        let pl = if payload_len > 4096 { payload_len } else { payload_len.min(300) };
                        break Item::Frame { ty, ty_len, payload_len: pl, len_len, key };
                    }
                    break it;
                }
            })
            .collect();
        let total: usize = items.iter().map(|i| encode(i).len()).sum();
        let cut = if rng.chance_pm(350) { rng.usize(1, total.min(12)) } else { 0 };
        TsPlan { seed, role, items, cut }
    }
    fn execute(&self, plan: &TsPlan, trace: bool) -> Exec {
        let _ = crate::simio::take_stats();
        let mut ex = exec_ts(plan, trace);
        io_faults(&mut ex);
        ex
    }
    fn shrink(&self, plan: &TsPlan) -> Vec<TsPlan> {
        let v = serde_json::to_value(plan).unwrap();
        let mut c = shrink_array(&v, "/items", 1);
        c.extend(shrink_num(&v, "/cut", 0));
        c.into_iter().filter_map(|v| serde_json::from_value(v).ok()).collect()
    }
    fn faulty(&self) -> bool {
        true
    }
}

pub fn def() -> PropertyDef {
    PropertyDef {
        id: "C15",
        scenarios: vec![Box::new(Typed(C15Paths)), Box::new(Typed(C15Typestates))],
        rule: "unit-io-decoders: one frame or stream header per run - DATA / HEADERS / SETTINGS / GREASE / HTTP/2-reserved / unknown types over every varint length, payload lengths 0..16384 (boundaries 62-65, 4095-4097), WebTransport frames and headers with valid and invalid session ids over all magnitudes, type / length / id optionally in non-shortest varint form - either complete (optionally followed by trailing bytes that must not be touched) or cut at a generated prefix length. The same bytes go through the one-shot (slice), buffered (BufferReader) and asynchronous decoders; the asynchronous source is simulated: 1 B..5 kB per poll, Pending on 0-80 % of the polls with and without wake-up, and FIN / reset / not-connected at the cut. Oracle: on complete input all three return the value (or error class) computed independently from the generator, having consumed exactly the encoding (the async path leaves the trailing bytes in the source); on a proper prefix the synchronous paths ask for more data with the buffered offset unchanged, and the asynchronous path reports ImmediateFin iff nothing was delivered, UnexpectedFin otherwise (or the source's reset / not-connected), never a value or another error - except an error already determined by the prefix (oversize length, unknown stream type), which all three must report alike. unit-io-typestates: 1-3 frames (optionally with the tail cut off) through read_frame / read_frame_from_buffer / read_frame_async of the four readable typestates; the yielded frames and the terminal (need-more / ImmediateFin at a boundary, H3_FRAME_ERROR inside a frame, or the H3 code) must equal a rule table (DATA/HEADERS/SETTINGS/WebTransport-signal admissibility per role, signal only first, invalid id -> H3_ID_ERROR, oversize -> H3_EXCESSIVE_LOAD, unknown frames skipped whole). Every run is non-trivial; distinct = distinct plan hashes.",
        assumptions: vec![
            "the schedule of the byte source (chunking, Pending pattern, termination) is what is simulated; the decoders themselves are pure",
            "expected values come from the generator and the independent reference codec's varint encoder",
        ],
        real_components: vec!["wtransport-proto: bytes (GetVarint/GetBuffer), frame, stream_header, stream typestates"],
        stub_components: vec!["byte source (SimReader behind wtransport_proto::bytes::AsyncRead)", "task polling (hand-written driver)"],
    }
}
