//! Construction of real `wtransport` endpoints on a `SimNet`, and session establishment.

use crate::rng::Rng;
use crate::simnet::{SimNet, SimSocket};
use serde::{Deserialize, Serialize};
use std::net::SocketAddr;
use std::sync::Arc;
use std::time::Duration;
use wtransport::endpoint::endpoint_side::{Client, Server};
use wtransport::quinn;
use wtransport::tls::{Certificate, CertificateChain, PrivateKey};
use wtransport::{ClientConfig, Connection, Endpoint, Identity, ServerConfig};

const FIXED_CERT_HEX: &str = "308201293081dca003020102021436ca38ce31c291eba1de04acd1d2447ff1e157b3300506032b6570301f311d301b06035504030c14777473696d206669786564206964656e746974793020170d3230303130313030303030305a180f32313030303130313030303030305a301f311d301b06035504030c14777473696d206669786564206964656e74697479302a300506032b6570032100712ba43639cc91012fc58325416c9a74ba03fbda96bbc21f56cadb892debd5fda328302630240603551d11041d301b82096c6f63616c686f737487040a000001820873696d2e74657374300506032b6570034100f0be9ad1a252186bbacafcd3db90ff5f91fe719c6bbd9228ace1d7c3b0cdabb295b85d19862b6ac6fffd0362d64f8e5058df8ebcb5e3c0d73e29781a22dba70a";
const FIXED_KEY_HEX: &str = "3051020101300506032b657004220420b176ec98cb04bf7f66d2d7e27f86886fec71b8fcc3b8540404dad49fb516f649812100712ba43639cc91012fc58325416c9a74ba03fbda96bbc21f56cadb892debd5fd";

pub fn unhex(s: &str) -> Vec<u8> {
    (0..s.len() / 2).map(|i| u8::from_str_radix(&s[2 * i..2 * i + 2], 16).unwrap()).collect()
}

pub fn hex(b: &[u8]) -> String {
    b.iter().map(|x| format!("{x:02x}")).collect()
}

/// A fixed Ed25519 identity (constant DER, constant-length signatures): the sizes of the
/// TLS handshake messages are the same in every execution, which keeps packet counts — and
/// therefore the per-link sequence numbers the fault schedule keys on — reproducible.
pub fn fixed_identity() -> Identity {
    Identity::new(
        CertificateChain::single(Certificate::from_der(unhex(FIXED_CERT_HEX)).expect("fixed cert")),
        PrivateKey::from_der_pkcs8(unhex(FIXED_KEY_HEX)),
    )
}

#[derive(Clone, Debug, Serialize, Deserialize, PartialEq)]
pub struct EpKnobs {
    pub idle_timeout_ms: Option<u64>,
    pub keep_alive_ms: Option<u64>,
    pub stream_recv_window: u64,
    pub recv_window: u64,
    pub send_window: u64,
    pub max_bi: u64,
    pub max_uni: u64,
    pub dgram_recv_buf: Option<usize>,
    pub dgram_send_buf: usize,
    pub initial_rtt_ms: u64,
    pub mtu_discovery: bool,
    /// build the endpoint through `with_identity` / `with_no_cert_validation`, i.e. with the
    /// library's own default transport configuration; every other knob is then ignored
    #[serde(default)]
    pub library_defaults: bool,
}

impl Default for EpKnobs {
    fn default() -> Self {
        Self {
            idle_timeout_ms: Some(30_000),
            keep_alive_ms: None,
            stream_recv_window: 64 * 1024,
            recv_window: 256 * 1024,
            send_window: 256 * 1024,
            max_bi: 100,
            max_uni: 100,
            dgram_recv_buf: Some(65536),
            dgram_send_buf: 1024 * 1024,
            initial_rtt_ms: 20,
            mtu_discovery: false,
            library_defaults: false,
        }
    }
}

impl EpKnobs {
    pub fn random(rng: &mut Rng) -> Self {
        let srw = *rng.pick(&[4096u64, 8192, 16384, 65536]);
        Self {
            idle_timeout_ms: Some(30_000),
            keep_alive_ms: None,
            stream_recv_window: srw,
            recv_window: srw * *rng.pick(&[1u64, 2, 4, 8]),
            send_window: *rng.pick(&[8192u64, 65536, 1 << 20]),
            max_bi: *rng.pick(&[4u64, 8, 16, 100]),
            max_uni: *rng.pick(&[4u64, 8, 16, 100]),
            dgram_recv_buf: Some(65536),
            dgram_send_buf: 1024 * 1024,
            initial_rtt_ms: *rng.pick(&[5u64, 20, 100]),
            mtu_discovery: rng.chance_pm(200),
            library_defaults: false,
        }
    }

    pub fn transport(&self) -> quinn::TransportConfig {
        let mut tc = quinn::TransportConfig::default();
        tc.max_idle_timeout(self.idle_timeout_ms.map(|ms| {
            quinn::IdleTimeout::try_from(Duration::from_millis(ms)).expect("idle timeout in range")
        }));
        tc.keep_alive_interval(self.keep_alive_ms.map(Duration::from_millis));
        tc.stream_receive_window(quinn::VarInt::from_u64(self.stream_recv_window).unwrap());
        tc.receive_window(quinn::VarInt::from_u64(self.recv_window).unwrap());
        tc.send_window(self.send_window);
        tc.max_concurrent_bidi_streams(quinn::VarInt::from_u64(self.max_bi).unwrap());
        tc.max_concurrent_uni_streams(quinn::VarInt::from_u64(self.max_uni).unwrap());
        tc.datagram_receive_buffer_size(self.dgram_recv_buf);
        tc.datagram_send_buffer_size(self.dgram_send_buf);
        tc.initial_rtt(Duration::from_millis(self.initial_rtt_ms));
        if !self.mtu_discovery {
            tc.mtu_discovery_config(None);
        }
        tc
    }
}

pub fn tokio_runtime() -> Arc<dyn quinn::Runtime> {
    Arc::new(quinn::TokioRuntime)
}

pub fn no_verify_client_tls() -> rustls::ClientConfig {
    wtransport::tls::client::build_default_tls_config(
        Arc::new(rustls::RootCertStore::empty()),
        Some(Arc::new(wtransport::tls::client::NoServerVerification::new())),
    )
}

pub fn server_config(addr: SocketAddr, k: &EpKnobs, identity: Identity, seed: [u8; 32]) -> ServerConfig {
    if k.library_defaults {
        let mut cfg = ServerConfig::builder().with_bind_address(addr).with_identity(identity).build();
        cfg.quic_endpoint_config_mut().rng_seed(Some(seed));
        return cfg;
    }
    let mut cfg = ServerConfig::builder()
        .with_bind_address(addr)
        .with_custom_transport(identity, k.transport())
        .build();
    cfg.quic_endpoint_config_mut().rng_seed(Some(seed));
    cfg
}

pub fn client_config(addr: SocketAddr, k: &EpKnobs, seed: [u8; 32]) -> ClientConfig {
    if k.library_defaults {
        let mut cfg = ClientConfig::builder().with_bind_address(addr).with_no_cert_validation().build();
        cfg.quic_endpoint_config_mut().rng_seed(Some(seed));
        return cfg;
    }
    let mut cfg = ClientConfig::builder()
        .with_bind_address(addr)
        .with_custom_tls_and_transport(no_verify_client_tls(), k.transport())
        .build();
    cfg.quic_endpoint_config_mut().rng_seed(Some(seed));
    cfg
}

pub fn server_on(net: &SimNet, cfg: ServerConfig, addr: SocketAddr) -> (Endpoint<Server>, Arc<SimSocket>) {
    let sock = net.socket(addr);
    let ep = Endpoint::server_with_abstract_socket(cfg, sock.clone(), tokio_runtime()).expect("server endpoint");
    (ep, sock)
}

pub fn client_on(net: &SimNet, cfg: ClientConfig, addr: SocketAddr) -> (Endpoint<Client>, Arc<SimSocket>) {
    let sock = net.socket(addr);
    let ep = Endpoint::client_with_abstract_socket(cfg, sock.clone(), tokio_runtime()).expect("client endpoint");
    (ep, sock)
}

pub const SERVER_ADDR: &str = "10.0.0.1:4433";
pub const CLIENT_ADDR: &str = "10.0.0.2:50000";

pub struct Pair {
    pub net: SimNet,
    pub server_ep: Endpoint<Server>,
    pub client_ep: Endpoint<Client>,
    pub server_sock: Arc<SimSocket>,
    pub client_sock: Arc<SimSocket>,
}

/// Real server + real client on one SimNet.
pub fn pair(net: &SimNet, seed: u64, ck: &EpKnobs, sk: &EpKnobs) -> Pair {
    let mut r = Rng::new(seed, "quinn-endpoints");
    let saddr: SocketAddr = SERVER_ADDR.parse().unwrap();
    let caddr: SocketAddr = CLIENT_ADDR.parse().unwrap();
    let (server_ep, server_sock) = server_on(net, server_config(saddr, sk, fixed_identity(), r.seed32()), saddr);
    let (client_ep, client_sock) = client_on(net, client_config(caddr, ck, r.seed32()), caddr);
    Pair { net: net.clone(), server_ep, client_ep, server_sock, client_sock }
}

/// Establishes one accepted session; returns (client connection, server connection).
pub async fn establish(p: &Pair, url: &str) -> Result<(Connection, Connection), String> {
    let accept = async {
        let inc = p.server_ep.accept().await;
        let req = inc.await.map_err(|e| format!("server incoming: {e:?}"))?;
        req.accept().await.map_err(|e| format!("server accept: {e:?}"))
    };
    let connect = async { p.client_ep.connect(url).await.map_err(|e| format!("client connect: {e:?}")) };
    let (s, c) = tokio::join!(accept, connect);
    Ok((c?, s?))
}

pub fn default_url() -> String {
    format!("https://{SERVER_ADDR}/sim")
}
