//! One simulated run = one fresh current-thread tokio runtime with a paused clock
//! (discrete-event time), a seeded `select!`/scheduler RNG and randomised scheduler knobs.
//! Panics anywhere on the run's thread (including inside tasks, which tokio swallows) are
//! captured by a process-wide hook into a thread-local list.

use crate::rng::Rng;
use serde::{Deserialize, Serialize};
use std::cell::RefCell;
use std::future::Future;
use std::sync::atomic::{AtomicBool, AtomicU64, AtomicUsize, Ordering};
use std::sync::Once;
use std::time::Duration;

#[derive(Clone, Debug, Serialize, Deserialize, PartialEq)]
pub struct RtKnobs {
    pub rng_seed: u64,
    pub event_interval: u32,
    pub global_queue_interval: u32,
}

impl RtKnobs {
    pub fn from_rng(rng: &mut Rng) -> Self {
        Self {
            rng_seed: rng.next_u64(),
            event_interval: *rng.pick(&[1, 2, 7, 31, 61, 127]),
            global_queue_interval: *rng.pick(&[1, 2, 5, 31, 61]),
        }
    }
    pub fn fixed(seed: u64) -> Self {
        Self { rng_seed: seed, event_interval: 61, global_queue_interval: 31 }
    }
}

thread_local! {
    static CAPTURE: RefCell<Option<Vec<String>>> = const { RefCell::new(None) };
}

static HOOK: Once = Once::new();

fn install_hook() {
    HOOK.call_once(|| {
        let default = std::panic::take_hook();
        std::panic::set_hook(Box::new(move |info| {
            let no_capture = std::env::var("WTSIM_NO_CAPTURE").is_ok();
            let captured = !no_capture && CAPTURE.with(|c| {
                if let Some(v) = c.borrow_mut().as_mut() {
                    let loc = info
                        .location()
                        .map(|l| format!("{}:{}", l.file(), l.line()))
                        .unwrap_or_default();
                    let msg = if let Some(s) = info.payload().downcast_ref::<&str>() {
                        s.to_string()
                    } else if let Some(s) = info.payload().downcast_ref::<String>() {
                        s.clone()
                    } else {
                        "<non-string panic>".to_string()
                    };
                    v.push(format!("{msg} @ {loc}"));
                    true
                } else {
                    false
                }
            });
            if !captured {
                default(info);
            }
        }));
    });
}

pub struct RunOut<T> {
    /// `None` when the simulated-time limit of the run was hit.
    pub value: Option<T>,
    pub panics: Vec<String>,
    pub loop_iters: u64,
    pub torn_reads: u64,
}

// ---- wall-clock watchdog -------------------------------------------------------------

const MAX_SLOTS: usize = 64;
static SLOT_START_MS: [AtomicU64; MAX_SLOTS] = [const { AtomicU64::new(0) }; MAX_SLOTS];
static SLOT_SEED: [AtomicU64; MAX_SLOTS] = [const { AtomicU64::new(0) }; MAX_SLOTS];
static WATCHDOG: Once = Once::new();
static WATCHDOG_OFF: AtomicBool = AtomicBool::new(false);
thread_local! {
    static SLOT: std::cell::Cell<usize> = const { std::cell::Cell::new(0) };
}

fn wall_ms() -> u64 {
    use std::time::{SystemTime, UNIX_EPOCH};
    SystemTime::now().duration_since(UNIX_EPOCH).unwrap().as_millis() as u64
}

pub fn watchdog_limit_s() -> u64 {
    std::env::var("WTSIM_WATCHDOG_S").ok().and_then(|s| s.parse().ok()).unwrap_or(180)
}

fn start_watchdog() {
    WATCHDOG.call_once(|| {
        std::thread::spawn(|| loop {
            std::thread::sleep(Duration::from_secs(2));
            if WATCHDOG_OFF.load(Ordering::Relaxed) {
                continue;
            }
            let now = wall_ms();
            let lim = watchdog_limit_s() * 1000;
            for i in 0..MAX_SLOTS {
                let s = SLOT_START_MS[i].load(Ordering::Relaxed);
                if s != 0 && now.saturating_sub(s) > lim {
                    eprintln!(
                        "HARNESS-ERROR: run (label {}) exceeded the wall-clock watchdog of {}s (spinning without yielding?)",
                        SLOT_SEED[i].load(Ordering::Relaxed),
                        lim / 1000
                    );
                    std::process::exit(2);
                }
            }
        });
    });
}

/// Runs `f` to completion on a fresh paused-clock current-thread runtime.
pub fn run<T, Fut>(knobs: &RtKnobs, label: u64, sim_limit: Duration, f: impl FnOnce() -> Fut) -> RunOut<T>
where
    Fut: Future<Output = T>,
{
    install_hook();
    start_watchdog();
    let slot = SLOT.with(|s| s.get());
    SLOT_SEED[slot].store(label, Ordering::Relaxed);
    SLOT_START_MS[slot].store(wall_ms(), Ordering::Relaxed);

    wtransport::verif::reset();
    crate::sut::set_app_pace_ms(0);
    CAPTURE.with(|c| *c.borrow_mut() = Some(Vec::new()));

    let mut seed_bytes = [0u8; 32];
    let mut r = Rng::new(knobs.rng_seed, "tokio");
    seed_bytes.copy_from_slice(&r.seed32());
    let rt = tokio::runtime::Builder::new_current_thread()
        .enable_time()
        .start_paused(true)
        .rng_seed(tokio::runtime::RngSeed::from_bytes(&seed_bytes))
        .event_interval(knobs.event_interval.max(1))
        .global_queue_interval(knobs.global_queue_interval.max(1))
        .build()
        .expect("runtime");

    let value = std::panic::catch_unwind(std::panic::AssertUnwindSafe(|| {
        rt.block_on(async {
            let fut = f();
            tokio::time::timeout(sim_limit, fut).await.ok()
        })
    }));
    let loop_iters = wtransport::verif::loop_iters();
    let torn_reads = wtransport::verif::torn_reads();
    // dropping the runtime cancels every remaining task (may itself run Drop code)
    let _ = std::panic::catch_unwind(std::panic::AssertUnwindSafe(move || drop(rt)));
    let panics = CAPTURE.with(|c| c.borrow_mut().take().unwrap_or_default());
    SLOT_START_MS[slot].store(0, Ordering::Relaxed);
    wtransport::verif::set_read_cap(0);
    let value = match value {
        Ok(v) => v,
        Err(_) => None,
    };
    RunOut { value, panics, loop_iters, torn_reads }
}

pub fn n_threads() -> usize {
    std::env::var("WTSIM_THREADS")
        .ok()
        .and_then(|s| s.parse().ok())
        .unwrap_or_else(|| std::thread::available_parallelism().map(|n| n.get()).unwrap_or(8))
        .clamp(1, MAX_SLOTS - 1)
}

/// Applies `f` to every item on `n_threads()` OS threads (each run is still
/// single-threaded); results come back in input order.
pub fn par_map<I: Sync, R: Send>(items: &[I], f: impl Fn(&I) -> R + Sync) -> Vec<R> {
    let n = n_threads().min(items.len().max(1));
    let next = AtomicUsize::new(0);
    let mut out: Vec<Option<R>> = (0..items.len()).map(|_| None).collect();
    let out_ptr = std::sync::Mutex::new(&mut out);
    std::thread::scope(|s| {
        for t in 0..n {
            let next = &next;
            let f = &f;
            let out_ptr = &out_ptr;
            std::thread::Builder::new()
                .stack_size(16 << 20)
                .spawn_scoped(s, move || {
                    SLOT.with(|sl| sl.set(t + 1));
                    let mut local: Vec<(usize, R)> = Vec::new();
                    loop {
                        let i = next.fetch_add(1, Ordering::Relaxed);
                        if i >= items.len() {
                            break;
                        }
                        local.push((i, f(&items[i])));
                        if local.len() >= 256 {
                            let mut g = out_ptr.lock().unwrap();
                            for (i, r) in local.drain(..) {
                                g[i] = Some(r);
                            }
                        }
                    }
                    let mut g = out_ptr.lock().unwrap();
                    for (i, r) in local.drain(..) {
                        g[i] = Some(r);
                    }
                })
                .expect("spawn worker");
        }
    });
    out.into_iter().map(|r| r.expect("result")).collect()
}

pub fn disable_watchdog() {
    WATCHDOG_OFF.store(true, Ordering::Relaxed);
}
