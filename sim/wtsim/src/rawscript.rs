//! Generic scripted exchange between the raw peer and the endpoint under test, with a
//! uniform record of everything observable afterwards. Used by the protocol-rule
//! properties (C04, C12, C13, C16, C17, C18): they differ in how scripts are generated and in
//! the oracle applied to the observation, not in how scripts are executed.

use crate::core::Exec;
use crate::harness::{self, EpKnobs};
use crate::rawpeer as rp;
use crate::refcodec as rc;
use crate::rng::Rng;
use crate::simnet::{NetCfg, SimNet};
use crate::simrt::{self, RtKnobs};
use crate::sut::{self, App};
use serde::{Deserialize, Serialize};
use std::collections::BTreeMap;
use std::sync::{Arc, Mutex};
use std::time::Duration;
use wtransport::error::ConnectionError;
use wtransport::quinn;

#[derive(Serialize, Deserialize, Clone, Debug, PartialEq)]
pub enum Act {
    OpenUni { slot: usize },
    OpenBi { slot: usize },
    /// server role only: accept the client's CONNECT stream into `slot`
    AcceptBi { slot: usize },
    Write { slot: usize, hex: String },
    Fin { slot: usize },
    Reset { slot: usize, code: u64 },
    StopRecv { slot: usize, code: u64 },
    Datagram { hex: String },
    Gap,
    Sleep { us: u64 },
    /// raw peer closes the QUIC connection with an application code
    CloseConn { code: u64, reason_hex: String },
    /// the application under test performs something
    AppCancelAccepts,
    AppClose { code: u64, reason_hex: String },
    /// wait until the endpoint under test has produced its session (or failed), bounded
    WaitSession,
    /// record, for every stream the raw peer is still sending on, whether the endpoint has
    /// sent STOP_SENDING (and with which code)
    CollectStops,
    /// the application under test sends a datagram / opens a uni stream carrying these bytes
    AppSendDatagram { hex: String },
    AppOpenUni { hex: String },
    /// what a conforming peer does (RFC 9000 3.5): every stream the endpoint has asked us to stop
    /// sending on is reset, which gives its stream credit back
    ResetStopped,
}

#[derive(Serialize, Deserialize, Clone, Debug)]
pub struct Script {
    pub seed: u64,
    pub rt: RtKnobs,
    pub net: NetCfg,
    pub k: EpKnobs,
    pub server_under_test: bool,
    pub acts: Vec<Act>,
    /// how long (simulated ms) to keep observing after the last act
    pub settle_ms: u64,
    /// what the server application decides (server under test): "accept" | "forbidden" | "not_found" | "too_many"
    #[serde(default)]
    pub decision: String,
    /// URL path + extra headers used by the client under test
    #[serde(default)]
    pub client_path: String,
    #[serde(default)]
    pub read_cap: usize,
    /// server under test: the application waits this long (ms) between being offered the session
    /// request and accepting it
    #[serde(default)]
    pub accept_delay_ms: u64,
    /// pause (ms) the application makes before every accept_uni / accept_bi / receive_datagram
    /// call (0 = it is always waiting)
    #[serde(default)]
    pub app_pace_ms: u64,
    /// server under test: the raw client opens and resets this many bidirectional streams before
    /// anything else, so that its CONNECT stream - the session id - is 4 * burn
    #[serde(default)]
    pub burn: u64,
    /// extra silence (ms) after about half of the `Gap` acts (which ones: a hash of the seed and
    /// the gap's index), so that pieces of one frame or preamble also arrive hundreds of
    /// milliseconds or seconds apart - anything timer-driven in the endpoint fires in between
    #[serde(default)]
    pub long_gap_ms: u64,
    /// per-mille of the raw peer's HTTP/3 varints written in a non-shortest (legal) form
    #[serde(default)]
    pub stretch_pm: u32,
}

#[derive(Clone, Debug, Default)]
pub struct SlotObs {
    pub id: u64,
    pub bidi: bool,
    /// STOP_SENDING code the endpoint sent for our sending half
    pub stopped: Option<u64>,
    /// RESET_STREAM code the endpoint sent on its half of a bidi stream
    pub reset: Option<u64>,
    /// bytes the endpoint wrote on its half of a bidi stream
    pub received: Vec<u8>,
    pub recv_fin: bool,
    pub write_error: Option<String>,
}

#[derive(Clone, Debug)]
pub enum RawClose {
    StillOpen,
    Application { code: u64, reason: Vec<u8> },
    Transport(String),
    TimedOut,
    LocallyClosed,
    Other(String),
}

#[derive(Clone, Debug)]
pub enum SutSession {
    Pending,
    Established { session_id: u64, authority: String, path: String, headers: BTreeMap<String, String> },
    Rejected,
    Failed(String),
}

#[derive(Debug)]
pub struct Obs {
    pub sut: SutSession,
    pub raw_close: RawClose,
    pub slots: BTreeMap<usize, SlotObs>,
    pub app: Option<crate::sut::AppLog>,
    pub rec: rp::RecState,
    pub setup_error: Option<String>,
    pub sut_closed: Option<ConnectionError>,
    pub raw_session_id: Option<u64>,
    pub sut_can_open_uni_after: Option<bool>,
    /// calls issued after everything else: (call, None = still pending after 5 s | Some(error or "ok"))
    pub later: Vec<(String, Option<Result<String, ConnectionError>>)>,
}

struct Slot {
    send: Option<quinn::SendStream>,
    obs: Arc<Mutex<SlotObs>>,
    _reader: Option<tokio::task::JoinHandle<()>>,
}

fn spawn_bidi_reader(mut recv: quinn::RecvStream, obs: Arc<Mutex<SlotObs>>) -> tokio::task::JoinHandle<()> {
    tokio::spawn(async move {
        let mut buf = vec![0u8; 4096];
        loop {
            match recv.read(&mut buf).await {
                Ok(Some(n)) => obs.lock().unwrap().received.extend_from_slice(&buf[..n]),
                Ok(None) => {
                    obs.lock().unwrap().recv_fin = true;
                    return;
                }
                Err(quinn::ReadError::Reset(c)) => {
                    obs.lock().unwrap().reset = Some(c.into_inner());
                    return;
                }
                Err(_) => return,
            }
        }
    })
}

fn unhex(s: &str) -> Vec<u8> {
    harness::unhex(s)
}

pub fn classify_close(e: &quinn::ConnectionError) -> RawClose {
    match e {
        quinn::ConnectionError::ApplicationClosed(c) => RawClose::Application { code: c.error_code.into_inner(), reason: c.reason.to_vec() },
        quinn::ConnectionError::ConnectionClosed(c) => RawClose::Transport(format!("{c:?}")),
        quinn::ConnectionError::TimedOut => RawClose::TimedOut,
        quinn::ConnectionError::LocallyClosed => RawClose::LocallyClosed,
        other => RawClose::Other(format!("{other:?}")),
    }
}

/// Runs a script to completion and returns the observation, plus the usual Exec bookkeeping.
pub fn run_script(script: &Script, trace: bool, prefix: &str) -> (Exec, Option<Obs>) {
    let mut ex = Exec::new();
    let script = Arc::new(script.clone());
    let s2 = script.clone();
    let netslot: Arc<Mutex<Option<SimNet>>> = Arc::new(Mutex::new(None));
    let ns2 = netslot.clone();
    let out = simrt::run(&script.rt, script.seed, Duration::from_secs(900), move || async move {
        let sc = s2;
        let net = SimNet::new(sc.net.clone(), trace);
        *ns2.lock().unwrap() = Some(net.clone());
        wtransport::verif::set_read_cap(sc.read_cap);
        sut::set_app_pace_ms(sc.app_pace_ms);
        let mut r = Rng::new(sc.seed, "rawscript-endpoints");
        let gap = Duration::from_millis(5) + Duration::from_micros(sc.net.lat_min_us * 3);

        let sut_state: Arc<Mutex<SutSession>> = Arc::new(Mutex::new(SutSession::Pending));
        let app_slot: Arc<Mutex<Option<App>>> = Arc::new(Mutex::new(None));
        let mut keep: Vec<Box<dyn std::any::Any + Send>> = Vec::new();
        let raw_conn: quinn::Connection;
        if sc.server_under_test {
            let s = sut::sut_server(&net, &sc.k, &mut r);
            let (rep, _rs) = rp::raw_client_endpoint(&net, rp::RAW_CLIENT_ADDR.parse().unwrap(), sut::raw_transport(), r.seed32(), b"h3");
            let sep = s.ep;
            let (st, ap, decision) = (sut_state.clone(), app_slot.clone(), sc.decision.clone());
            let accept_delay_ms = sc.accept_delay_ms;
            // the server application: accept sessions for as long as the endpoint lives
            tokio::spawn(async move {
                loop {
                    let inc = sep.accept().await;
                    let (st, ap, decision) = (st.clone(), ap.clone(), decision.clone());
                    tokio::spawn(async move {
                        match inc.await {
                            Ok(req) => {
                                let authority = req.authority().to_string();
                                let path = req.path().to_string();
                                let headers: BTreeMap<String, String> = req.headers().iter().map(|(k, v)| (k.clone(), v.clone())).collect();
                                match decision.as_str() {
                                    "forbidden" => {
                                        req.forbidden().await;
                                        *st.lock().unwrap() = SutSession::Rejected;
                                    }
                                    "not_found" => {
                                        req.not_found().await;
                                        *st.lock().unwrap() = SutSession::Rejected;
                                    }
                                    "too_many" => {
                                        req.too_many_requests().await;
                                        *st.lock().unwrap() = SutSession::Rejected;
                                    }
                                    _ => match {
                                        if accept_delay_ms > 0 {
                                            tokio::time::sleep(Duration::from_millis(accept_delay_ms)).await;
                                        }
                                        req.accept().await
                                    } {
                                        Ok(conn) => {
                                            *st.lock().unwrap() = SutSession::Established { session_id: conn.session_id().into_u64(), authority, path, headers };
                                            *ap.lock().unwrap() = Some(App::start(conn));
                                        }
                                        Err(e) => *st.lock().unwrap() = SutSession::Failed(format!("accept: {e:?}")),
                                    },
                                }
                            }
                            Err(e) => {
                                let mut g = st.lock().unwrap();
                                if matches!(*g, SutSession::Pending) {
                                    *g = SutSession::Failed(format!("incoming: {e:?}"));
                                }
                            }
                        }
                    });
                }
            });
            raw_conn = match rep.connect(s.addr, "localhost").map_err(|e| format!("{e:?}")) {
                Ok(c) => match c.await {
                    Ok(c) => c,
                    Err(e) => return Err(format!("raw handshake: {e:?}")),
                },
                Err(e) => return Err(e),
            };
            keep.push(Box::new(rep));
        } else {
            let (rep, _rs) = rp::raw_server_endpoint(&net, rp::RAW_SERVER_ADDR.parse().unwrap(), sut::raw_transport(), r.seed32());
            let c = sut::sut_client(&net, &sc.k, &mut r);
            let cep = c.ep;
            let path = if sc.client_path.is_empty() { "/script".to_string() } else { sc.client_path.clone() };
            let url = format!("https://{}{}", rp::RAW_SERVER_ADDR, path);
            let (st, ap) = (sut_state.clone(), app_slot.clone());
            tokio::spawn(async move {
                match cep.connect(url).await {
                    Ok(conn) => {
                        *st.lock().unwrap() = SutSession::Established { session_id: conn.session_id().into_u64(), authority: String::new(), path: String::new(), headers: BTreeMap::new() };
                        *ap.lock().unwrap() = Some(App::start(conn));
                    }
                    Err(wtransport::error::ConnectingError::SessionRejected) => *st.lock().unwrap() = SutSession::Rejected,
                    Err(e) => *st.lock().unwrap() = SutSession::Failed(format!("{e:?}")),
                }
                // keep the endpoint alive for the rest of the run
                std::future::pending::<()>().await;
                drop(cep);
            });
            raw_conn = match rep.accept().await {
                Some(inc) => match inc.await {
                    Ok(c) => c,
                    Err(e) => return Err(format!("raw accept: {e:?}")),
                },
                None => return Err("raw endpoint closed".into()),
            };
            keep.push(Box::new(rep));
        }
        let rec = rp::start_recorder(&raw_conn, false);
        net.note("quic-up");
        if sc.server_under_test {
            for _ in 0..sc.burn {
                match raw_conn.open_bi().await {
                    Ok((mut s, _r)) => {
                        let _ = s.reset(0u32.into());
                    }
                    Err(e) => return Err(format!("burn: {e:?}")),
                }
            }
        }

        let mut slots: BTreeMap<usize, Slot> = BTreeMap::new();
        let mut raw_session_id = None;
        let mut fired: BTreeMap<&'static str, u64> = BTreeMap::new();
        let mut gap_idx = 0u64;
        for act in &sc.acts {
            let kind = match act {
                Act::Gap => Some("delivery_boundary_forced"),
                Act::Reset { .. } => Some("peer_stream_reset"),
                Act::CloseConn { .. } => Some("peer_connection_close"),
                Act::AppCancelAccepts => Some("app_calls_cancelled_and_reissued"),
                Act::AppClose { .. } => Some("local_close_mid_script"),
                Act::Sleep { .. } => Some("peer_delay"),
                _ => None,
            };
            if let Some(k) = kind {
                *fired.entry(k).or_insert(0) += 1;
            }
            match act {
                // bounded: an endpoint that never grants the stream credit must not hang the script
                Act::OpenUni { slot } => match tokio::time::timeout(Duration::from_secs(30), raw_conn.open_uni()).await.unwrap_or(Err(quinn::ConnectionError::TimedOut)) {
                    Ok(s) => {
                        let obs = Arc::new(Mutex::new(SlotObs { id: rp::sid(s.id()), bidi: false, ..Default::default() }));
                        slots.insert(*slot, Slot { send: Some(s), obs, _reader: None });
                    }
                    Err(_) => break,
                },
                Act::OpenBi { slot } => match tokio::time::timeout(Duration::from_secs(30), raw_conn.open_bi()).await.unwrap_or(Err(quinn::ConnectionError::TimedOut)) {
                    Ok((s, rcv)) => {
                        let obs = Arc::new(Mutex::new(SlotObs { id: rp::sid(s.id()), bidi: true, ..Default::default() }));
                        let reader = spawn_bidi_reader(rcv, obs.clone());
                        slots.insert(*slot, Slot { send: Some(s), obs, _reader: Some(reader) });
                    }
                    Err(_) => break,
                },
                Act::AcceptBi { slot } => match tokio::time::timeout(Duration::from_secs(30), raw_conn.accept_bi()).await {
                    Ok(Ok((s, rcv))) => {
                        raw_session_id = Some(rp::sid(s.id()));
                        let obs = Arc::new(Mutex::new(SlotObs { id: rp::sid(s.id()), bidi: true, ..Default::default() }));
                        let reader = spawn_bidi_reader(rcv, obs.clone());
                        slots.insert(*slot, Slot { send: Some(s), obs, _reader: Some(reader) });
                    }
                    _ => break,
                },
                Act::Write { slot, hex } => {
                    if let Some(sl) = slots.get_mut(slot) {
                        if let Some(s) = sl.send.as_mut() {
                            let bytes = unhex(hex);
                            // bounded: a write the endpoint never credits must not hang the script
                            match tokio::time::timeout(Duration::from_secs(20), s.write_all(&bytes)).await {
                                Ok(Ok(())) => {}
                                Ok(Err(e)) => {
                                    let mut o = sl.obs.lock().unwrap();
                                    if let quinn::WriteError::Stopped(c) = &e {
                                        o.stopped = Some(c.into_inner());
                                    }
                                    o.write_error = Some(format!("{e:?}"));
                                }
                                Err(_) => sl.obs.lock().unwrap().write_error = Some("write blocked for 20 s".into()),
                            }
                        }
                    }
                }
                Act::Fin { slot } => {
                    if let Some(sl) = slots.get_mut(slot) {
                        if let Some(s) = sl.send.as_mut() {
                            let _ = s.finish();
                        }
                    }
                }
                Act::Reset { slot, code } => {
                    if let Some(sl) = slots.get_mut(slot) {
                        if let Some(s) = sl.send.as_mut() {
                            let _ = s.reset(quinn::VarInt::from_u64(*code).unwrap());
                        }
                    }
                }
                Act::StopRecv { .. } => {}
                Act::Datagram { hex } => {
                    let _ = raw_conn.send_datagram(unhex(hex).into());
                }
                Act::Gap => {
                    net.quiesce(gap, Duration::from_secs(5)).await;
                    gap_idx += 1;
                    // below 5 s: after about half of the gaps; from 5 s on (a paced peer): after every gap
                    if sc.long_gap_ms > 0 && (sc.long_gap_ms >= 5_000 || crate::rng::mix(&[sc.seed, 0x6761_70, gap_idx]) & 1 == 1) {
                        tokio::time::sleep(Duration::from_millis(sc.long_gap_ms)).await;
                        *fired.entry("long_silence_inside_element").or_insert(0) += 1;
                    }
                }
                Act::Sleep { us } => tokio::time::sleep(Duration::from_micros(*us)).await,
                Act::CloseConn { code, reason_hex } => {
                    raw_conn.close(quinn::VarInt::from_u64(*code).unwrap(), &unhex(reason_hex));
                }
                Act::AppCancelAccepts => {
                    if let Some(app) = app_slot.lock().unwrap().as_mut() {
                        app.cancel_and_reissue(7);
                    }
                }
                Act::AppClose { code, reason_hex } => {
                    if let Some(app) = app_slot.lock().unwrap().as_ref() {
                        app.conn.close(wtransport::VarInt::try_from_u64(*code).unwrap(), &unhex(reason_hex));
                    }
                }
                Act::CollectStops => {
                    for sl in slots.values_mut() {
                        if let Some(s) = sl.send.as_mut() {
                            if let Ok(Ok(Some(code))) = tokio::time::timeout(Duration::from_millis(1), s.stopped()).await {
                                sl.obs.lock().unwrap().stopped = Some(code.into_inner());
                            }
                        }
                    }
                }
                Act::AppSendDatagram { hex } => {
                    let conn = app_slot.lock().unwrap().as_ref().map(|a| a.conn.clone());
                    if let Some(conn) = conn {
                        let _ = conn.send_datagram(unhex(hex));
                    }
                }
                Act::AppOpenUni { hex } => {
                    let conn = app_slot.lock().unwrap().as_ref().map(|a| (a.conn.clone(), a.log.clone()));
                    if let Some((conn, log)) = conn {
                        let bytes = unhex(hex);
                        let r = tokio::time::timeout(Duration::from_secs(20), async {
                            let mut s = conn.open_uni().await.ok()?.await.ok()?;
                            log.lock().unwrap().opened_uni.push((s.id().into_u64(), bytes.clone()));
                            s.write_all(&bytes).await.ok()?;
                            s.finish().await.ok()
                        })
                        .await;
                        let _ = r;
                    }
                }
                Act::ResetStopped => {
                    for sl in slots.values_mut() {
                        if let Some(s) = sl.send.as_mut() {
                            if let Ok(Ok(Some(code))) = tokio::time::timeout(Duration::from_millis(1), s.stopped()).await {
                                sl.obs.lock().unwrap().stopped = Some(code.into_inner());
                                let _ = s.reset(code);
                            }
                        }
                    }
                }
                Act::WaitSession => {
                    let st = sut_state.clone();
                    let rc2 = raw_conn.clone();
                    sut::wait_until(Duration::from_secs(30), move || !matches!(*st.lock().unwrap(), SutSession::Pending) || rc2.close_reason().is_some()).await;
                }
            }
        }
        net.note("script-done");
        tokio::time::sleep(Duration::from_millis(sc.settle_ms)).await;
        net.quiesce(gap, Duration::from_secs(5)).await;

        // ---- collect -----------------------------------------------------------------
        // STOP_SENDING on our sending halves (non-blocking check)
        for sl in slots.values_mut() {
            if let Some(s) = sl.send.as_mut() {
                if sl.obs.lock().unwrap().stopped.is_none() {
                    if let Ok(Ok(Some(code))) = tokio::time::timeout(Duration::from_millis(1), s.stopped()).await {
                        sl.obs.lock().unwrap().stopped = Some(code.into_inner());
                    }
                }
            }
        }
        let raw_close = match raw_conn.close_reason() {
            None => RawClose::StillOpen,
            Some(e) => classify_close(&e),
        };
        let sut = sut_state.lock().unwrap().clone();
        let mut sut_closed = None;
        let mut can_open = None;
        let mut later = Vec::new();
        let app_taken = app_slot.lock().unwrap().take();
        let app_log = match app_taken {
            Some(app) => {
                // is the session still usable from the application's point of view?
                let conn = app.conn.clone();
                let usable = tokio::time::timeout(Duration::from_secs(5), async {
                    match conn.open_uni().await {
                        Ok(o) => o.await.is_ok(),
                        Err(_) => false,
                    }
                })
                .await
                .unwrap_or(false);
                can_open = Some(usable);
                if let Ok(e) = tokio::time::timeout(Duration::from_millis(1), conn.closed()).await {
                    sut_closed = Some(e);
                }
                // "every subsequent operation that waits on the peer": issue each call once more
                let ended_now = app.log.lock().unwrap().ended.len();
                if ended_now > 0 {
                    let r = tokio::time::timeout(Duration::from_secs(5), conn.accept_uni()).await;
                    later.push(("accept_uni".to_string(), r.ok().map(|x| x.map(|_| "ok".to_string()))));
                    let r = tokio::time::timeout(Duration::from_secs(5), conn.accept_bi()).await;
                    later.push(("accept_bi".to_string(), r.ok().map(|x| x.map(|_| "ok".to_string()))));
                    let r = tokio::time::timeout(Duration::from_secs(5), conn.receive_datagram()).await;
                    later.push(("receive_datagram".to_string(), r.ok().map(|x| x.map(|_| "ok".to_string()))));
                }
                let log = std::mem::take(&mut *app.log.lock().unwrap());
                Some(log)
            }
            None => None,
        };
        let slot_obs: BTreeMap<usize, SlotObs> = slots.iter().map(|(k, v)| (*k, v.obs.lock().unwrap().clone())).collect();
        let rec_state = std::mem::take(&mut *rec.0.lock().unwrap());
        drop(keep);
        Ok((Obs { sut, raw_close, slots: slot_obs, app: app_log, rec: rec_state, setup_error: None, sut_closed, raw_session_id, sut_can_open_uni_after: can_open, later }, fired))
    });
    sut::finish_exec(&mut ex, &netslot, trace);
    ex.probe("loop_iters", out.loop_iters);
    if !out.panics.is_empty() {
        ex.violation(&format!("{prefix}/panic"), out.panics.join(" | "));
        return (ex, None);
    }
    match out.value {
        None => {
            ex.violation(&format!("{prefix}/run-did-not-finish"), "script exceeded 900 s simulated".into());
            (ex, None)
        }
        Some(Err(e)) => {
            ex.violation(&format!("{prefix}/setup"), e);
            (ex, None)
        }
        Some(Ok((obs, fired))) => {
            for k in ["delivery_boundary_forced", "long_silence_inside_element", "peer_stream_reset", "peer_connection_close", "app_calls_cancelled_and_reissued", "peer_delay"] {
                ex.fault(k, fired.get(k).copied().unwrap_or(0));
            }
            if let Some(n) = fired.get("local_close_mid_script") {
                ex.fault("local_close_mid_script", *n);
            }
            ex.fault("short_read_cap_runs", (script.read_cap > 0) as u64);
            (ex, Some(obs))
        }
    }
}

// ---- script building helpers ------------------------------------------------------------------

pub fn hex(b: &[u8]) -> String {
    harness::hex(b)
}

pub fn base_script(seed: u64, server_under_test: bool) -> Script {
    let mut rng = Rng::new(seed, "rawscript");
    let mut net = NetCfg::clean(rng.next_u64());
    net.lat_min_us = 1_000;
    Script {
        seed,
        rt: RtKnobs::from_rng(&mut rng),
        net,
        k: EpKnobs::default(),
        server_under_test,
        acts: Vec::new(),
        settle_ms: 200,
        decision: "accept".into(),
        client_path: "/script".into(),
        read_cap: 0,
        stretch_pm: if rng.chance_pm(300) { 350 } else { 0 },
        burn: 0,
        app_pace_ms: 0,
        accept_delay_ms: 0,
        long_gap_ms: if rng.chance_pm(250) { *rng.pick(&[20u64, 600, 1_500, 4_000]) } else { 0 },
    }
}

pub const SLOT_CONTROL: usize = 0;
pub const SLOT_CONNECT: usize = 1;

/// The well-behaved prologue: control stream with SETTINGS, then the CONNECT exchange.
pub fn valid_prologue(server_under_test: bool) -> Vec<Act> {
    let mut control = rc::varint(rc::STREAM_CONTROL);
    control.extend_from_slice(&rc::frame(rc::FRAME_SETTINGS, &rc::settings_payload(&rc::default_peer_settings())));
    let mut a = vec![Act::OpenUni { slot: SLOT_CONTROL }, Act::Write { slot: SLOT_CONTROL, hex: hex(&control) }];
    if server_under_test {
        a.push(Act::OpenBi { slot: SLOT_CONNECT });
        a.push(Act::Write { slot: SLOT_CONNECT, hex: hex(&rc::headers_frame(&rc::connect_request_fields("10.0.0.1:4433", "/script"), rc::EncStyle::PlainLiteral)) });
    } else {
        a.push(Act::AcceptBi { slot: SLOT_CONNECT });
        a.push(Act::Write { slot: SLOT_CONNECT, hex: hex(&rc::headers_frame(&rp::status_fields("200"), rc::EncStyle::PlainLiteral)) });
    }
    a.push(Act::WaitSession);
    a
}

pub fn close_capsule_act(code: u32, reason: &[u8]) -> Act {
    Act::Write { slot: SLOT_CONNECT, hex: hex(&rc::frame(rc::FRAME_DATA, &rc::close_capsule(code, reason))) }
}

/// Response status the raw client saw on the CONNECT stream (server under test).
pub fn response_status(obs: &Obs) -> Option<String> {
    let s = obs.slots.get(&SLOT_CONNECT)?;
    let (frames, _) = rc::parse_frames(&s.received);
    let h = frames.iter().find(|f| f.ty == rc::FRAME_HEADERS)?;
    let fs = rc::qpack_decode(&h.payload).ok()?;
    fs.fields.iter().find(|f| f.name == ":status").map(|f| f.value.clone())
}
