//! Independent reference codec, written from the specifications (RFC 9000 §16 varints,
//! RFC 9114 §7 frames / §6.2 stream types, RFC 9204 QPACK incl. Appendix A static table,
//! RFC 7541 §5.1 prefix integers and Appendix B Huffman code, RFC 9297 capsules,
//! draft-ietf-webtrans-http3 signal values, settings and error codes).
//! Shares no code with `wtransport-proto`; it both drives the endpoint under test and
//! decodes what that endpoint emits, so a symmetric encoder/decoder mistake in the library
//! cannot cancel out.

use crate::huffman_table::HUFFMAN;

// ---- registry values (from the specifications) ------------------------------------------
pub const FRAME_DATA: u64 = 0x00;
pub const FRAME_HEADERS: u64 = 0x01;
pub const FRAME_CANCEL_PUSH: u64 = 0x03;
pub const FRAME_SETTINGS: u64 = 0x04;
pub const FRAME_PUSH_PROMISE: u64 = 0x05;
pub const FRAME_GOAWAY: u64 = 0x07;
pub const FRAME_MAX_PUSH_ID: u64 = 0x0d;
pub const FRAME_WT_STREAM: u64 = 0x41;

pub const STREAM_CONTROL: u64 = 0x00;
pub const STREAM_PUSH: u64 = 0x01;
pub const STREAM_QPACK_ENC: u64 = 0x02;
pub const STREAM_QPACK_DEC: u64 = 0x03;
pub const STREAM_WT_UNI: u64 = 0x54;

pub const SET_QPACK_MAX_TABLE_CAPACITY: u64 = 0x01;
pub const SET_MAX_FIELD_SECTION_SIZE: u64 = 0x06;
pub const SET_QPACK_BLOCKED_STREAMS: u64 = 0x07;
pub const SET_ENABLE_CONNECT_PROTOCOL: u64 = 0x08;
pub const SET_H3_DATAGRAM: u64 = 0x33;
pub const SET_ENABLE_WEBTRANSPORT: u64 = 0x2b60_3742;
pub const SET_WT_MAX_SESSIONS: u64 = 0xc671_706a;

pub const H3_DATAGRAM_ERROR: u64 = 0x33;
pub const H3_NO_ERROR: u64 = 0x100;
pub const H3_GENERAL_PROTOCOL_ERROR: u64 = 0x101;
pub const H3_INTERNAL_ERROR: u64 = 0x102;
pub const H3_STREAM_CREATION_ERROR: u64 = 0x103;
pub const H3_CLOSED_CRITICAL_STREAM: u64 = 0x104;
pub const H3_FRAME_UNEXPECTED: u64 = 0x105;
pub const H3_FRAME_ERROR: u64 = 0x106;
pub const H3_EXCESSIVE_LOAD: u64 = 0x107;
pub const H3_ID_ERROR: u64 = 0x108;
pub const H3_SETTINGS_ERROR: u64 = 0x109;
pub const H3_MISSING_SETTINGS: u64 = 0x10a;
pub const H3_REQUEST_REJECTED: u64 = 0x10b;
pub const H3_REQUEST_CANCELLED: u64 = 0x10c;
pub const H3_REQUEST_INCOMPLETE: u64 = 0x10d;
pub const H3_MESSAGE_ERROR: u64 = 0x10e;
pub const QPACK_DECOMPRESSION_FAILED: u64 = 0x200;
pub const WT_BUFFERED_STREAM_REJECTED: u64 = 0x3994_bd84;
pub const WT_SESSION_GONE: u64 = 0x170d_7b68;

pub const CAPSULE_CLOSE_WT_SESSION: u64 = 0x2843;

pub const VARINT_MAX: u64 = (1 << 62) - 1;

/// Reserved "GREASE" values: 0x1f * N + 0x21.
pub fn is_grease(v: u64) -> bool {
    v >= 0x21 && (v - 0x21) % 0x1f == 0
}

pub fn grease(n: u64) -> u64 {
    0x1f * n + 0x21
}

// ---- varints -----------------------------------------------------------------------------

pub fn varint_len(v: u64) -> usize {
    if v < (1 << 6) {
        1
    } else if v < (1 << 14) {
        2
    } else if v < (1 << 30) {
        4
    } else {
        8
    }
}

thread_local! {
    /// (state, per-mille): when set, `put_varint` encodes that share of the integers on the next
    /// larger legal length. Non-shortest forms are valid everywhere in HTTP/3, so an endpoint
    /// must not care; scenarios opt in while they compile their scripts.
    static STRETCH: std::cell::Cell<Option<(u64, u32)>> = const { std::cell::Cell::new(None) };
}

/// Runs `f` with non-shortest varint encoding switched on for `pm` per mille of the integers.
pub fn with_stretch<T>(seed: u64, pm: u32, f: impl FnOnce() -> T) -> T {
    if pm == 0 {
        return f();
    }
    STRETCH.with(|s| s.set(Some((seed | 1, pm))));
    let r = f();
    STRETCH.with(|s| s.set(None));
    r
}

pub fn put_varint(v: u64, out: &mut Vec<u8>) {
    let mut len = varint_len(v);
    STRETCH.with(|s| {
        if let Some((mut st, pm)) = s.get() {
            let r = crate::rng::splitmix(&mut st);
            s.set(Some((st, pm)));
            if len < 8 && (r % 1000) < pm as u64 {
                len *= 2;
                if len == 2 && (r >> 20) % 3 == 0 {
                    len = 4;
                }
            }
        }
    });
    put_varint_len(v, len, out)
}

/// Encodes `v` on exactly `len` bytes (1, 2, 4 or 8); non-shortest forms are legal on the
/// wire for everything except frame types in some contexts, so the endpoint must accept them.
pub fn put_varint_len(v: u64, len: usize, out: &mut Vec<u8>) {
    assert!(v <= VARINT_MAX);
    assert!(len >= varint_len(v));
    match len {
        1 => out.push(v as u8),
        2 => out.extend_from_slice(&((v as u16) | 0x4000).to_be_bytes()),
        4 => out.extend_from_slice(&((v as u32) | 0x8000_0000).to_be_bytes()),
        8 => out.extend_from_slice(&(v | 0xc000_0000_0000_0000).to_be_bytes()),
        _ => panic!("bad varint len"),
    }
}

pub fn varint(v: u64) -> Vec<u8> {
    let mut o = Vec::new();
    put_varint(v, &mut o);
    o
}

/// Returns (value, encoded length) or None if `b` is too short.
pub fn get_varint(b: &[u8]) -> Option<(u64, usize)> {
    let first = *b.first()?;
    let len = 1usize << (first >> 6);
    if b.len() < len {
        return None;
    }
    let mut v = (first & 0x3f) as u64;
    for x in &b[1..len] {
        v = (v << 8) | *x as u64;
    }
    Some((v, len))
}

// ---- frames ---------------------------------------------------------------------------------

pub fn frame(ty: u64, payload: &[u8]) -> Vec<u8> {
    let mut o = Vec::with_capacity(payload.len() + 16);
    put_varint(ty, &mut o);
    put_varint(payload.len() as u64, &mut o);
    o.extend_from_slice(payload);
    o
}

pub fn wt_bidi_signal(session_id: u64) -> Vec<u8> {
    let mut o = Vec::new();
    put_varint(FRAME_WT_STREAM, &mut o);
    put_varint(session_id, &mut o);
    o
}

pub fn wt_uni_header(session_id: u64) -> Vec<u8> {
    let mut o = Vec::new();
    put_varint(STREAM_WT_UNI, &mut o);
    put_varint(session_id, &mut o);
    o
}

#[derive(Clone, Debug, PartialEq)]
pub struct RFrame {
    pub ty: u64,
    pub ty_len: usize,
    pub len_len: usize,
    pub payload: Vec<u8>,
}

/// Parses complete frames (type, length, payload) from `b`; returns the frames and the
/// number of bytes consumed. A 0x41 signal is *not* special-cased here.
pub fn parse_frames(b: &[u8]) -> (Vec<RFrame>, usize) {
    let mut out = Vec::new();
    let mut off = 0;
    loop {
        let Some((ty, l1)) = get_varint(&b[off..]) else { break };
        let Some((len, l2)) = get_varint(&b[off + l1..]) else { break };
        let start = off + l1 + l2;
        let Some(end) = start.checked_add(len as usize) else { break };
        if end > b.len() {
            break;
        }
        out.push(RFrame { ty, ty_len: l1, len_len: l2, payload: b[start..end].to_vec() });
        off = end;
    }
    (out, off)
}

// ---- settings -------------------------------------------------------------------------------

pub fn settings_payload(pairs: &[(u64, u64)]) -> Vec<u8> {
    let mut o = Vec::new();
    for (k, v) in pairs {
        put_varint(*k, &mut o);
        put_varint(*v, &mut o);
    }
    o
}

pub fn parse_settings(p: &[u8]) -> Option<Vec<(u64, u64, bool)>> {
    // (id, value, both varints in shortest form)
    let mut out = Vec::new();
    let mut off = 0;
    while off < p.len() {
        let (k, l1) = get_varint(&p[off..])?;
        let (v, l2) = get_varint(&p[off + l1..])?;
        out.push((k, v, l1 == varint_len(k) && l2 == varint_len(v)));
        off += l1 + l2;
    }
    Some(out)
}

/// The settings a WebTransport peer (e.g. a browser) advertises.
pub fn default_peer_settings() -> Vec<(u64, u64)> {
    vec![
        (SET_QPACK_MAX_TABLE_CAPACITY, 0),
        (SET_QPACK_BLOCKED_STREAMS, 0),
        (SET_ENABLE_CONNECT_PROTOCOL, 1),
        (SET_H3_DATAGRAM, 1),
        (SET_ENABLE_WEBTRANSPORT, 1),
        (SET_WT_MAX_SESSIONS, 1),
    ]
}

// ---- capsules -------------------------------------------------------------------------------

pub fn capsule(ty: u64, payload: &[u8]) -> Vec<u8> {
    let mut o = Vec::new();
    put_varint(ty, &mut o);
    put_varint(payload.len() as u64, &mut o);
    o.extend_from_slice(payload);
    o
}

pub fn close_capsule(code: u32, reason: &[u8]) -> Vec<u8> {
    let mut p = code.to_be_bytes().to_vec();
    p.extend_from_slice(reason);
    capsule(CAPSULE_CLOSE_WT_SESSION, &p)
}

// ---- HPACK/QPACK prefix integers and strings ------------------------------------------------

pub fn put_prefix_int(flags: u8, n_bits: u32, value: u64, out: &mut Vec<u8>) {
    let max = (1u64 << n_bits) - 1;
    let hi = if n_bits == 8 { 0 } else { flags << n_bits };
    if value < max {
        out.push(hi | value as u8);
        return;
    }
    out.push(hi | max as u8);
    let mut rem = value - max;
    while rem >= 128 {
        out.push((rem % 128) as u8 | 0x80);
        rem /= 128;
    }
    out.push(rem as u8);
}

/// Returns (flags above the prefix, value, bytes consumed).
pub fn get_prefix_int(b: &[u8], n_bits: u32) -> Result<(u8, u64, usize), String> {
    let first = *b.first().ok_or("eof in prefix integer")?;
    let max = (1u64 << n_bits) - 1;
    let flags = if n_bits == 8 { 0 } else { first >> n_bits };
    let mut value = first as u64 & max;
    if value < max {
        return Ok((flags, value, 1));
    }
    let mut m = 0u32;
    let mut i = 1;
    loop {
        let byte = *b.get(i).ok_or("eof in prefix integer continuation")?;
        i += 1;
        if m >= 63 {
            return Err("prefix integer overflow".into());
        }
        let add = ((byte & 0x7f) as u64).checked_shl(m).ok_or("prefix integer overflow")?;
        if (add >> m) != (byte & 0x7f) as u64 {
            return Err("prefix integer overflow".into());
        }
        value = value.checked_add(add).ok_or("prefix integer overflow")?;
        m += 7;
        if byte & 0x80 == 0 {
            break;
        }
    }
    Ok((flags, value, i))
}

pub fn huffman_encode(data: &[u8]) -> Vec<u8> {
    let mut out = Vec::new();
    let mut acc: u64 = 0;
    let mut nbits = 0u32;
    for b in data {
        let (len, code) = HUFFMAN[*b as usize];
        acc = (acc << len) | code as u64;
        nbits += len as u32;
        while nbits >= 8 {
            out.push((acc >> (nbits - 8)) as u8);
            nbits -= 8;
        }
    }
    if nbits > 0 {
        let pad = 8 - nbits;
        out.push(((acc << pad) as u8) | ((1u16 << pad) - 1) as u8);
    }
    out
}

fn huffman_index() -> &'static std::collections::HashMap<(u8, u32), u16> {
    static IDX: std::sync::OnceLock<std::collections::HashMap<(u8, u32), u16>> = std::sync::OnceLock::new();
    IDX.get_or_init(|| HUFFMAN.iter().enumerate().map(|(i, &(l, c))| ((l, c), i as u16)).collect())
}

/// Bit-by-bit decoder over the code table; rejects EOS in the data, padding longer than
/// 7 bits and padding that is not all ones (RFC 7541 §5.2).
pub fn huffman_decode(data: &[u8]) -> Result<Vec<u8>, String> {
    let idx = huffman_index();
    let mut out = Vec::new();
    let mut code: u32 = 0;
    let mut len: u8 = 0;
    for byte in data {
        for bit in (0..8).rev() {
            code = (code << 1) | ((byte >> bit) & 1) as u32;
            len += 1;
            if len > 30 {
                return Err("invalid huffman code".into());
            }
            if len >= 5 {
                if let Some(&sym) = idx.get(&(len, code)) {
                    if sym == 256 {
                        return Err("EOS in huffman data".into());
                    }
                    out.push(sym as u8);
                    code = 0;
                    len = 0;
                }
            }
        }
    }
    if len > 7 {
        return Err("huffman padding longer than 7 bits".into());
    }
    if len > 0 && code != (1u32 << len) - 1 {
        return Err("huffman padding not all ones".into());
    }
    Ok(out)
}

pub fn put_string(flags: u8, n_bits: u32, s: &[u8], huffman: bool, out: &mut Vec<u8>) {
    // flags are the bits above H; H is the bit just above the length prefix
    if huffman {
        let enc = huffman_encode(s);
        put_prefix_int((flags << 1) | 1, n_bits, enc.len() as u64, out);
        out.extend_from_slice(&enc);
    } else {
        put_prefix_int(flags << 1, n_bits, s.len() as u64, out);
        out.extend_from_slice(s);
    }
}

fn get_string(b: &[u8], n_bits: u32) -> Result<(Vec<u8>, bool, usize), String> {
    let (flags, len, used) = get_prefix_int(b, n_bits)?;
    let huff = flags & 1 == 1;
    let end = used.checked_add(len as usize).ok_or("string length overflow")?;
    if end > b.len() {
        return Err("eof in string".into());
    }
    let raw = &b[used..end];
    let s = if huff { huffman_decode(raw)? } else { raw.to_vec() };
    Ok((s, huff, end))
}

// ---- QPACK field sections -----------------------------------------------------------------

pub const STATIC_TABLE: [(&str, &str); 99] = [
    /* 0 */ (":authority", ""),
    /* 1 */ (":path", "/"),
    /* 2 */ ("age", "0"),
    /* 3 */ ("content-disposition", ""),
    /* 4 */ ("content-length", "0"),
    /* 5 */ ("cookie", ""),
    /* 6 */ ("date", ""),
    /* 7 */ ("etag", ""),
    /* 8 */ ("if-modified-since", ""),
    /* 9 */ ("if-none-match", ""),
    /* 10 */ ("last-modified", ""),
    /* 11 */ ("link", ""),
    /* 12 */ ("location", ""),
    /* 13 */ ("referer", ""),
    /* 14 */ ("set-cookie", ""),
    /* 15 */ (":method", "CONNECT"),
    /* 16 */ (":method", "DELETE"),
    /* 17 */ (":method", "GET"),
    /* 18 */ (":method", "HEAD"),
    /* 19 */ (":method", "OPTIONS"),
    /* 20 */ (":method", "POST"),
    /* 21 */ (":method", "PUT"),
    /* 22 */ (":scheme", "http"),
    /* 23 */ (":scheme", "https"),
    /* 24 */ (":status", "103"),
    /* 25 */ (":status", "200"),
    /* 26 */ (":status", "304"),
    /* 27 */ (":status", "404"),
    /* 28 */ (":status", "503"),
    /* 29 */ ("accept", "*/*"),
    /* 30 */ ("accept", "application/dns-message"),
    /* 31 */ ("accept-encoding", "gzip, deflate, br"),
    /* 32 */ ("accept-ranges", "bytes"),
    /* 33 */ ("access-control-allow-headers", "cache-control"),
    /* 34 */ ("access-control-allow-headers", "content-type"),
    /* 35 */ ("access-control-allow-origin", "*"),
    /* 36 */ ("cache-control", "max-age=0"),
    /* 37 */ ("cache-control", "max-age=2592000"),
    /* 38 */ ("cache-control", "max-age=604800"),
    /* 39 */ ("cache-control", "no-cache"),
    /* 40 */ ("cache-control", "no-store"),
    /* 41 */ ("cache-control", "public, max-age=31536000"),
    /* 42 */ ("content-encoding", "br"),
    /* 43 */ ("content-encoding", "gzip"),
    /* 44 */ ("content-type", "application/dns-message"),
    /* 45 */ ("content-type", "application/javascript"),
    /* 46 */ ("content-type", "application/json"),
    /* 47 */ ("content-type", "application/x-www-form-urlencoded"),
    /* 48 */ ("content-type", "image/gif"),
    /* 49 */ ("content-type", "image/jpeg"),
    /* 50 */ ("content-type", "image/png"),
    /* 51 */ ("content-type", "text/css"),
    /* 52 */ ("content-type", "text/html; charset=utf-8"),
    /* 53 */ ("content-type", "text/plain"),
    /* 54 */ ("content-type", "text/plain;charset=utf-8"),
    /* 55 */ ("range", "bytes=0-"),
    /* 56 */ ("strict-transport-security", "max-age=31536000"),
    /* 57 */ ("strict-transport-security", "max-age=31536000; includesubdomains"),
    /* 58 */ ("strict-transport-security", "max-age=31536000; includesubdomains; preload"),
    /* 59 */ ("vary", "accept-encoding"),
    /* 60 */ ("vary", "origin"),
    /* 61 */ ("x-content-type-options", "nosniff"),
    /* 62 */ ("x-xss-protection", "1; mode=block"),
    /* 63 */ (":status", "100"),
    /* 64 */ (":status", "204"),
    /* 65 */ (":status", "206"),
    /* 66 */ (":status", "302"),
    /* 67 */ (":status", "400"),
    /* 68 */ (":status", "403"),
    /* 69 */ (":status", "421"),
    /* 70 */ (":status", "425"),
    /* 71 */ (":status", "500"),
    /* 72 */ ("accept-language", ""),
    /* 73 */ ("access-control-allow-credentials", "FALSE"),
    /* 74 */ ("access-control-allow-credentials", "TRUE"),
    /* 75 */ ("access-control-allow-headers", "*"),
    /* 76 */ ("access-control-allow-methods", "get"),
    /* 77 */ ("access-control-allow-methods", "get, post, options"),
    /* 78 */ ("access-control-allow-methods", "options"),
    /* 79 */ ("access-control-expose-headers", "content-length"),
    /* 80 */ ("access-control-request-headers", "content-type"),
    /* 81 */ ("access-control-request-method", "get"),
    /* 82 */ ("access-control-request-method", "post"),
    /* 83 */ ("alt-svc", "clear"),
    /* 84 */ ("authorization", ""),
    /* 85 */ ("content-security-policy", "script-src 'none'; object-src 'none'; base-uri 'none'"),
    /* 86 */ ("early-data", "1"),
    /* 87 */ ("expect-ct", ""),
    /* 88 */ ("forwarded", ""),
    /* 89 */ ("if-range", ""),
    /* 90 */ ("origin", ""),
    /* 91 */ ("purpose", "prefetch"),
    /* 92 */ ("server", ""),
    /* 93 */ ("timing-allow-origin", "*"),
    /* 94 */ ("upgrade-insecure-requests", "1"),
    /* 95 */ ("user-agent", ""),
    /* 96 */ ("x-forwarded-for", ""),
    /* 97 */ ("x-frame-options", "deny"),
    /* 98 */ ("x-frame-options", "sameorigin"),
];

#[derive(Clone, Copy, Debug, PartialEq, Eq)]
pub enum Repr {
    IndexedStatic,
    LiteralStaticName,
    LiteralLiteralName,
}

#[derive(Clone, Debug, PartialEq)]
pub struct Field {
    pub name: String,
    pub value: String,
    pub repr: Repr,
    pub huffman_name: bool,
    pub huffman_value: bool,
}

#[derive(Clone, Debug)]
pub struct FieldSection {
    pub required_insert_count: u64,
    pub delta_base: u64,
    pub sign: bool,
    pub fields: Vec<Field>,
}

/// Decodes a field section that must not reference the dynamic table.
pub fn qpack_decode(b: &[u8]) -> Result<FieldSection, String> {
    let (_, ric, u1) = get_prefix_int(b, 8)?;
    let (s, db, u2) = get_prefix_int(&b[u1..], 7)?;
    let mut off = u1 + u2;
    let mut fields = Vec::new();
    while off < b.len() {
        let first = b[off];
        if first & 0x80 != 0 {
            // Indexed field line: 1 T index(6)
            let (fl, idx, used) = get_prefix_int(&b[off..], 6)?;
            if fl & 1 == 0 {
                return Err("indexed field line references the dynamic table".into());
            }
            let (n, v) = STATIC_TABLE.get(idx as usize).ok_or(format!("static index {idx} out of range"))?;
            fields.push(Field { name: n.to_string(), value: v.to_string(), repr: Repr::IndexedStatic, huffman_name: false, huffman_value: false });
            off += used;
        } else if first & 0x40 != 0 {
            // Literal with name reference: 01 N T index(4)
            let (fl, idx, used) = get_prefix_int(&b[off..], 4)?;
            if fl & 1 == 0 {
                return Err("literal field line references a dynamic name".into());
            }
            let (n, _) = STATIC_TABLE.get(idx as usize).ok_or(format!("static index {idx} out of range"))?;
            off += used;
            let (val, hv, used) = get_string(&b[off..], 7)?;
            off += used;
            fields.push(Field {
                name: n.to_string(),
                value: String::from_utf8(val).map_err(|_| "value not utf-8")?,
                repr: Repr::LiteralStaticName,
                huffman_name: false,
                huffman_value: hv,
            });
        } else if first & 0x20 != 0 {
            // Literal with literal name: 001 N H namelen(3)
            let (name, hn, used) = get_string(&b[off..], 3)?;
            off += used;
            let (val, hv, used) = get_string(&b[off..], 7)?;
            off += used;
            fields.push(Field {
                name: String::from_utf8(name).map_err(|_| "name not utf-8")?,
                value: String::from_utf8(val).map_err(|_| "value not utf-8")?,
                repr: Repr::LiteralLiteralName,
                huffman_name: hn,
                huffman_value: hv,
            });
        } else if first & 0x10 != 0 {
            return Err("indexed field line with post-base index (dynamic table)".into());
        } else {
            return Err("literal field line with post-base name reference (dynamic table)".into());
        }
    }
    Ok(FieldSection { required_insert_count: ric, delta_base: db, sign: s & 1 == 1, fields })
}

#[derive(Clone, Copy, Debug, PartialEq, Eq, serde::Serialize, serde::Deserialize)]
pub enum EncStyle {
    /// every field as literal name + literal value, no Huffman
    PlainLiteral,
    /// literal name + value, Huffman for both
    HuffmanLiteral,
    /// static index when (name, value) matches, static name reference when the name
    /// matches, literal otherwise; Huffman per `huffman`
    Static { huffman: bool },
}

pub fn qpack_encode(fields: &[(String, String)], style: EncStyle) -> Vec<u8> {
    let mut o = vec![0u8, 0u8]; // Required Insert Count = 0, S = 0, Delta Base = 0
    for (n, v) in fields {
        match style {
            EncStyle::PlainLiteral | EncStyle::HuffmanLiteral => {
                let h = style == EncStyle::HuffmanLiteral;
                put_string(0b001_0, 3, n.as_bytes(), h, &mut o);
                put_string(0, 7, v.as_bytes(), h, &mut o);
            }
            EncStyle::Static { huffman } => {
                if let Some(i) = STATIC_TABLE.iter().position(|(a, b)| a == n && b == v) {
                    put_prefix_int(0b11, 6, i as u64, &mut o);
                } else if let Some(i) = STATIC_TABLE.iter().rposition(|(a, _)| a == n) {
                    // rposition: deliberately a different (equally legal) choice of row than a
                    // first-match encoder makes
                    put_prefix_int(0b0101, 4, i as u64, &mut o);
                    put_string(0, 7, v.as_bytes(), huffman, &mut o);
                } else {
                    put_string(0b001_0, 3, n.as_bytes(), huffman, &mut o);
                    put_string(0, 7, v.as_bytes(), huffman, &mut o);
                }
            }
        }
    }
    o
}

pub fn headers_frame(fields: &[(String, String)], style: EncStyle) -> Vec<u8> {
    frame(FRAME_HEADERS, &qpack_encode(fields, style))
}

pub fn connect_request_fields(authority: &str, path: &str) -> Vec<(String, String)> {
    vec![
        (":method".into(), "CONNECT".into()),
        (":scheme".into(), "https".into()),
        (":authority".into(), authority.into()),
        (":path".into(), path.into()),
        (":protocol".into(), "webtransport".into()),
    ]
}

/// Self-check of the reference codec against worked examples of the RFCs. Run once per
/// process before the codec is trusted; a failure is a harness error.
pub fn self_check() -> Result<(), String> {
    // RFC 9000 §A.1 varint examples
    for (bytes, val) in [
        (vec![0xc2, 0x19, 0x7c, 0x5e, 0xff, 0x14, 0xe8, 0x8c], 151_288_809_941_952_652u64),
        (vec![0x9d, 0x7f, 0x3e, 0x7d], 494_878_333),
        (vec![0x7b, 0xbd], 15_293),
        (vec![0x25], 37),
        (vec![0x40, 0x25], 37),
    ] {
        let (v, l) = get_varint(&bytes).ok_or("varint eof")?;
        if v != val || l != bytes.len() {
            return Err(format!("varint example {bytes:02x?}"));
        }
    }
    if varint(151_288_809_941_952_652) != [0xc2, 0x19, 0x7c, 0x5e, 0xff, 0x14, 0xe8, 0x8c] || varint(15_293) != [0x7b, 0xbd] {
        return Err("varint encode".into());
    }
    // RFC 7541 C.1: 10 in 5 bits, 1337 in 5 bits, 42 in 8 bits
    let mut o = Vec::new();
    put_prefix_int(0, 5, 10, &mut o);
    put_prefix_int(0, 5, 1337, &mut o);
    put_prefix_int(0, 8, 42, &mut o);
    if o != [0x0a, 0x1f, 0x9a, 0x0a, 0x2a] {
        return Err(format!("prefix int encode {o:02x?}"));
    }
    if get_prefix_int(&[0x1f, 0x9a, 0x0a], 5)? != (0, 1337, 3) {
        return Err("prefix int decode".into());
    }
    // RFC 7541 C.4.1 / C.4.2 / C.6.1 Huffman examples
    for (text, hexs) in [
        ("www.example.com", "f1e3c2e5f23a6ba0ab90f4ff"),
        ("no-cache", "a8eb10649cbf"),
        ("custom-key", "25a849e95ba97d7f"),
        ("custom-value", "25a849e95bb8e8b4bf"),
        ("Mon, 21 Oct 2013 20:13:21 GMT", "d07abe941054d444a8200595040b8166e082a62d1bff"),
        ("https://www.example.com", "9d29ad171863c78f0b97c8e9ae82ae43d3"),
        ("302", "6402"),
        ("private", "aec3771a4b"),
    ] {
        let want = crate::harness::unhex(hexs);
        if huffman_encode(text.as_bytes()) != want {
            return Err(format!("huffman encode {text}"));
        }
        if huffman_decode(&want)? != text.as_bytes() {
            return Err(format!("huffman decode {text}"));
        }
    }
    // all byte values round trip
    let all: Vec<u8> = (0..=255u8).collect();
    if huffman_decode(&huffman_encode(&all))? != all {
        return Err("huffman all-bytes round trip".into());
    }
    // RFC 9204 B.1: literal field line with name reference (":path" = static 1)
    let b1 = crate::harness::unhex("0000510b2f696e6465782e68746d6c");
    let fs = qpack_decode(&b1)?;
    if fs.fields.len() != 1 || fs.fields[0].name != ":path" || fs.fields[0].value != "/index.html" {
        return Err("qpack B.1 example".into());
    }
    // own encoder/decoder agree in every style
    let fields: Vec<(String, String)> = vec![
        (":method".into(), "CONNECT".into()),
        (":authority".into(), "example.org:4433".into()),
        ("x-custom".into(), "some value with spaces & symbols ~".into()),
        ("origin".into(), "https://a.test".into()),
    ];
    for style in [EncStyle::PlainLiteral, EncStyle::HuffmanLiteral, EncStyle::Static { huffman: true }, EncStyle::Static { huffman: false }] {
        let dec = qpack_decode(&qpack_encode(&fields, style))?;
        let got: Vec<(String, String)> = dec.fields.iter().map(|f| (f.name.clone(), f.value.clone())).collect();
        if got != fields {
            return Err(format!("qpack round trip {style:?}"));
        }
    }
    Ok(())
}
