//! Helpers around the system under test: setting up (real endpoint, raw peer) pairs and a
//! generic "application" that keeps accepting on a `wtransport::Connection` and records
//! everything it is handed.

use crate::harness::{self, EpKnobs};
use crate::rawpeer as rp;
use crate::refcodec as rc;
use crate::rng::Rng;
use crate::simnet::{SimNet, SimSocket};
use std::collections::BTreeMap;
use std::net::SocketAddr;
use std::sync::{Arc, Mutex};
use std::time::Duration;
use tokio::task::JoinHandle;
use wtransport::endpoint::endpoint_side::{Client, Server};
use wtransport::error::ConnectionError;
use wtransport::quinn;
use wtransport::{Connection, Endpoint};

#[derive(Default, Debug)]
pub struct AppLog {
    pub uni: BTreeMap<u64, Vec<u8>>,
    pub uni_err: BTreeMap<u64, String>,
    pub bi: BTreeMap<u64, Vec<u8>>,
    pub bi_err: BTreeMap<u64, String>,
    pub accepted_uni: Vec<u64>,
    pub accepted_bi: Vec<u64>,
    pub datagrams: Vec<Vec<u8>>,
    /// terminal error of each accept loop: ("accept_uni" | "accept_bi" | "receive_datagram", error)
    pub ended: Vec<(String, ConnectionError)>,
    pub cancelled_accepts: u64,
    /// (id reported by SendStream::id(), bytes written) of the uni streams the application opened
    pub opened_uni: Vec<(u64, Vec<u8>)>,
}

thread_local! {
    /// pause (ms) the application's accept / receive loops make before every call (0 = none):
    /// set per run by the script engine; with a pause, items arrive while no call is pending
    /// and are picked up from the hand-off queues by the next call
    static APP_PACE_MS: std::cell::Cell<u64> = const { std::cell::Cell::new(0) };
}

pub fn set_app_pace_ms(ms: u64) {
    APP_PACE_MS.with(|p| p.set(ms));
}

fn app_pace() -> Duration {
    Duration::from_millis(APP_PACE_MS.with(|p| p.get()))
}

pub struct App {
    pub conn: Connection,
    pub log: Arc<Mutex<AppLog>>,
    uni_task: Option<JoinHandle<()>>,
    bi_task: Option<JoinHandle<()>>,
    dg_task: Option<JoinHandle<()>>,
}

async fn read_all(recv: &mut wtransport::RecvStream) -> Result<Vec<u8>, String> {
    let mut all = Vec::new();
    let mut buf = vec![0u8; 2048];
    loop {
        match recv.read(&mut buf).await {
            Ok(Some(n)) => all.extend_from_slice(&buf[..n]),
            Ok(None) => return Ok(all),
            Err(e) => return Err(format!("{e:?}")),
        }
    }
}

impl App {
    pub fn start(conn: Connection) -> Self {
        let mut a = App { conn, log: Arc::new(Mutex::new(AppLog::default())), uni_task: None, bi_task: None, dg_task: None };
        a.spawn_uni();
        a.spawn_bi();
        a.spawn_dg();
        a
    }

    fn spawn_uni(&mut self) {
        let (conn, log) = (self.conn.clone(), self.log.clone());
        self.uni_task = Some(tokio::spawn(async move {
            let pace = app_pace();
            loop {
                if !pace.is_zero() {
                    tokio::time::sleep(pace).await;
                }
                match conn.accept_uni().await {
                    Ok(mut recv) => {
                        let id = recv.id().into_u64();
                        log.lock().unwrap().accepted_uni.push(id);
                        let log = log.clone();
                        tokio::spawn(async move {
                            match read_all(&mut recv).await {
                                Ok(b) => {
                                    log.lock().unwrap().uni.insert(id, b);
                                }
                                Err(e) => {
                                    log.lock().unwrap().uni_err.insert(id, e);
                                }
                            }
                        });
                    }
                    Err(e) => {
                        log.lock().unwrap().ended.push(("accept_uni".into(), e));
                        break;
                    }
                }
            }
        }));
    }

    fn spawn_bi(&mut self) {
        let (conn, log) = (self.conn.clone(), self.log.clone());
        self.bi_task = Some(tokio::spawn(async move {
            let pace = app_pace();
            loop {
                if !pace.is_zero() {
                    tokio::time::sleep(pace).await;
                }
                match conn.accept_bi().await {
                    Ok((send, mut recv)) => {
                        let id = recv.id().into_u64();
                        log.lock().unwrap().accepted_bi.push(id);
                        let log = log.clone();
                        tokio::spawn(async move {
                            let _keep = send;
                            match read_all(&mut recv).await {
                                Ok(b) => {
                                    log.lock().unwrap().bi.insert(id, b);
                                }
                                Err(e) => {
                                    log.lock().unwrap().bi_err.insert(id, e);
                                }
                            }
                        });
                    }
                    Err(e) => {
                        log.lock().unwrap().ended.push(("accept_bi".into(), e));
                        break;
                    }
                }
            }
        }));
    }

    fn spawn_dg(&mut self) {
        let (conn, log) = (self.conn.clone(), self.log.clone());
        self.dg_task = Some(tokio::spawn(async move {
            let pace = app_pace();
            loop {
                if !pace.is_zero() {
                    tokio::time::sleep(pace).await;
                }
                match conn.receive_datagram().await {
                    Ok(d) => log.lock().unwrap().datagrams.push(d.payload().to_vec()),
                    Err(e) => {
                        log.lock().unwrap().ended.push(("receive_datagram".into(), e));
                        break;
                    }
                }
            }
        }));
    }

    /// Cancels the pending accept calls (drops their futures at whatever await point they
    /// are) and reissues them — the documented cancel-safe usage.
    pub fn cancel_and_reissue(&mut self, which: u8) {
        let already_ended: Vec<String> = self.log.lock().unwrap().ended.iter().map(|e| e.0.clone()).collect();
        if which & 1 != 0 && !already_ended.iter().any(|e| e == "accept_uni") {
            if let Some(h) = self.uni_task.take() {
                h.abort();
            }
            self.spawn_uni();
            self.log.lock().unwrap().cancelled_accepts += 1;
        }
        if which & 2 != 0 && !already_ended.iter().any(|e| e == "accept_bi") {
            if let Some(h) = self.bi_task.take() {
                h.abort();
            }
            self.spawn_bi();
            self.log.lock().unwrap().cancelled_accepts += 1;
        }
        if which & 4 != 0 && !already_ended.iter().any(|e| e == "receive_datagram") {
            if let Some(h) = self.dg_task.take() {
                h.abort();
            }
            self.spawn_dg();
            self.log.lock().unwrap().cancelled_accepts += 1;
        }
    }

    /// Waits (simulated time) until all three accept loops have ended, or `max` elapsed.
    pub async fn wait_ended(&self, max: Duration) -> bool {
        let deadline = tokio::time::Instant::now() + max;
        loop {
            if self.log.lock().unwrap().ended.len() >= 3 {
                return true;
            }
            if tokio::time::Instant::now() >= deadline {
                return false;
            }
            tokio::time::sleep(Duration::from_millis(10)).await;
        }
    }
}

pub async fn wait_until(max: Duration, mut cond: impl FnMut() -> bool) -> bool {
    let deadline = tokio::time::Instant::now() + max;
    loop {
        if cond() {
            return true;
        }
        if tokio::time::Instant::now() >= deadline {
            return false;
        }
        tokio::time::sleep(Duration::from_millis(10)).await;
    }
}

pub fn raw_transport() -> quinn::TransportConfig {
    EpKnobs::default().transport()
}

pub struct SutServer {
    pub ep: Endpoint<Server>,
    pub sock: Arc<SimSocket>,
    pub addr: SocketAddr,
}

pub struct SutClient {
    pub ep: Endpoint<Client>,
    pub sock: Arc<SimSocket>,
}

pub fn sut_server(net: &SimNet, k: &EpKnobs, r: &mut Rng) -> SutServer {
    let addr: SocketAddr = harness::SERVER_ADDR.parse().unwrap();
    let (ep, sock) = harness::server_on(net, harness::server_config(addr, k, harness::fixed_identity(), r.seed32()), addr);
    SutServer { ep, sock, addr }
}

pub fn sut_client(net: &SimNet, k: &EpKnobs, r: &mut Rng) -> SutClient {
    let addr: SocketAddr = harness::CLIENT_ADDR.parse().unwrap();
    let (ep, sock) = harness::client_on(net, harness::client_config(addr, k, r.seed32()), addr);
    SutClient { ep, sock }
}

/// Everything a RAW scenario needs once a session is established between the endpoint
/// under test and the raw peer.
pub struct RawCtx {
    pub sut: Connection,
    pub raw: quinn::Connection,
    pub session_id: u64,
    pub control: quinn::SendStream,
    pub req_send: quinn::SendStream,
    pub req_recv: quinn::RecvStream,
    pub rec: rp::Recorder,
    pub sut_sock: Arc<SimSocket>,
    pub raw_sock: Arc<SimSocket>,
    pub keep: Vec<Box<dyn std::any::Any + Send>>,
}

/// Establishes a session the ordinary way (no misbehaviour): raw client against the real
/// server (`server_under_test`) or real client against a raw server.
pub async fn raw_established(net: &SimNet, server_under_test: bool, k: &EpKnobs, r: &mut Rng, path: &str) -> Result<RawCtx, String> {
    if server_under_test {
        let s = sut_server(net, k, r);
        let (rep, rsock) = rp::raw_client_endpoint(net, rp::RAW_CLIENT_ADDR.parse().unwrap(), raw_transport(), r.seed32(), b"h3");
        let accept = async {
            let req = s.ep.accept().await.await.map_err(|e| format!("incoming: {e:?}"))?;
            req.accept().await.map_err(|e| format!("accept: {e:?}"))
        };
        let raw = async {
            let conn = rep
                .connect(s.addr, "localhost")
                .map_err(|e| format!("raw connect: {e:?}"))?
                .await
                .map_err(|e| format!("raw handshake: {e:?}"))?;
            let rec = rp::start_recorder(&conn, false);
            let rs = raw_client_session_on(conn, "10.0.0.1:4433", path).await?;
            Ok::<_, String>((rs, rec))
        };
        let (sconn, rs) = tokio::join!(accept, raw);
        let sconn = sconn?;
        let (rs, rec) = rs?;
        Ok(RawCtx {
            sut: sconn,
            raw: rs.conn.clone(),
            session_id: rs.session_id,
            control: rs.control,
            req_send: rs.req_send,
            req_recv: rs.req_recv,
            rec,
            sut_sock: s.sock.clone(),
            raw_sock: rsock,
            keep: vec![Box::new(s.ep), Box::new(rep)],
        })
    } else {
        let raddr: SocketAddr = rp::RAW_SERVER_ADDR.parse().unwrap();
        let (rep, rsock) = rp::raw_server_endpoint(net, raddr, raw_transport(), r.seed32());
        let c = sut_client(net, k, r);
        let raw = async {
            let inc = rep.accept().await.ok_or("raw endpoint closed")?;
            let conn = inc.await.map_err(|e| format!("raw accept: {e:?}"))?;
            let rec = rp::start_recorder(&conn, false);
            let mut rs = raw_server_accept_on(conn).await?;
            rp::write_all(&mut rs.req_send, &rc::headers_frame(&rp::status_fields("200"), rc::EncStyle::PlainLiteral)).await?;
            Ok::<_, String>((rs, rec))
        };
        let url = format!("https://{}{}", rp::RAW_SERVER_ADDR, path);
        let connect = async { c.ep.connect(url).await.map_err(|e| format!("connect: {e:?}")) };
        let (rs, cconn) = tokio::join!(raw, connect);
        let (rs, rec) = rs?;
        let cconn = cconn?;
        Ok(RawCtx {
            sut: cconn,
            raw: rs.conn.clone(),
            session_id: rs.session_id,
            control: rs.control,
            req_send: rs.req_send,
            req_recv: rs.req_recv,
            rec,
            sut_sock: c.sock.clone(),
            raw_sock: rsock,
            keep: vec![Box::new(c.ep), Box::new(rep)],
        })
    }
}

/// Raw client steps on an already connected QUIC connection.
pub async fn raw_client_session_on(conn: quinn::Connection, authority: &str, path: &str) -> Result<rp::RawSession, String> {
    let control = rp::open_control(&conn, &rc::default_peer_settings()).await?;
    let (mut req_send, mut req_recv) = conn.open_bi().await.map_err(|e| format!("raw open_bi: {e:?}"))?;
    let session_id = rp::sid(req_send.id());
    let fields = rc::connect_request_fields(authority, path);
    rp::write_all(&mut req_send, &rc::headers_frame(&fields, rc::EncStyle::PlainLiteral)).await?;
    let mut req_buf = Vec::new();
    let frames = rp::read_frames_until(&mut req_recv, &mut req_buf, |f| f.iter().any(|x| x.ty == rc::FRAME_HEADERS)).await?;
    let h = frames.iter().find(|x| x.ty == rc::FRAME_HEADERS).unwrap();
    let response = rc::qpack_decode(&h.payload)?;
    let (_, used) = rc::parse_frames(&req_buf);
    req_buf.drain(..used);
    Ok(rp::RawSession { conn, control, req_send, req_recv, session_id, response, req_buf })
}

pub async fn raw_server_accept_on(conn: quinn::Connection) -> Result<rp::RawServerSession, String> {
    let control = rp::open_control(&conn, &rc::default_peer_settings()).await?;
    let (req_send, mut req_recv) = conn.accept_bi().await.map_err(|e| format!("raw accept_bi: {e:?}"))?;
    let session_id = rp::sid(req_send.id());
    let mut req_buf = Vec::new();
    let frames = rp::read_frames_until(&mut req_recv, &mut req_buf, |f| f.iter().any(|x| x.ty == rc::FRAME_HEADERS)).await?;
    let h = frames.iter().find(|x| x.ty == rc::FRAME_HEADERS).unwrap();
    let request = rc::qpack_decode(&h.payload)?;
    let (_, used) = rc::parse_frames(&req_buf);
    req_buf.drain(..used);
    Ok(rp::RawServerSession { conn, control, req_send, req_recv, session_id, request, req_buf })
}

/// Standard tail of `execute`: copy network statistics out of the run.
pub fn finish_exec(ex: &mut crate::core::Exec, netslot: &Arc<Mutex<Option<SimNet>>>, trace: bool) {
    if let Some(net) = netslot.lock().unwrap().take() {
        ex.net = net.stats();
        ex.trace_hash = net.hash();
        ex.sim_us = net.now_us_at_end();
        if trace {
            ex.trace = net.take_trace();
        }
    }
}

pub fn app_closed(e: &ConnectionError) -> Option<(u64, Vec<u8>)> {
    match e {
        ConnectionError::ApplicationClosed(c) => Some((c.code().into_inner(), c.reason().to_vec())),
        _ => None,
    }
}
