mod core;
mod exec;
mod harness;
mod huffman_table;
mod props;
mod rawpeer;
mod rawscript;
mod refcodec;
mod rng;
mod simio;
mod simnet;
mod simrt;
mod sut;

use crate::core::Tier;

fn usage() -> ! {
    eprintln!("usage: wtsim check <ID> [--tier quick|thorough] | replay <file> | selftest determinism [ID..] | hashes <ID> <n>");
    std::process::exit(2)
}

fn base_seed() -> u64 {
    std::env::var("VERIF_SEED").ok().and_then(|s| s.parse::<u64>().ok()).unwrap_or(20260922)
}

fn tier_from(args: &[String]) -> Tier {
    let mut t = std::env::var("VERIF_TIER").unwrap_or_default();
    if let Some(p) = args.iter().position(|a| a == "--tier") {
        if let Some(v) = args.get(p + 1) {
            t = v.clone();
        }
    }
    match t.as_str() {
        "thorough" => Tier::Thorough,
        _ => Tier::Quick,
    }
}

fn main() {
    let args: Vec<String> = std::env::args().skip(1).collect();
    if let Err(e) = refcodec::self_check() {
        eprintln!("HARNESS-ERROR: reference codec self-check failed: {e}");
        std::process::exit(2);
    }
    let defs = props::all();
    match args.first().map(|s| s.as_str()) {
        Some("check") => {
            let id = args.get(1).unwrap_or_else(|| usage());
            let Some(def) = defs.iter().find(|d| d.id == id) else {
                eprintln!("HARNESS-ERROR: no check for property {id}");
                std::process::exit(2);
            };
            let out = core::run_check(def, tier_from(&args), base_seed());
            std::process::exit(out.exit_code);
        }
        Some("replay") => {
            let f = args.get(1).unwrap_or_else(|| usage());
            std::process::exit(core::replay_file(&defs, f));
        }
        Some("hashes") => {
            // prints one line per run: scenario, index, trace hash, verdict class — used by the
            // cross-process determinism self-test
            let id = args.get(1).unwrap_or_else(|| usage());
            let n: usize = args.get(2).and_then(|s| s.parse().ok()).unwrap_or(50);
            let Some(def) = defs.iter().find(|d| d.id == id) else { usage() };
            for sc in &def.scenarios {
                let idxs: Vec<usize> = (0..n.min(sc.budget(Tier::Quick))).collect();
                let rows = simrt::par_map(&idxs, |&i| {
                    let seed = core::scenario_seed(base_seed(), sc.name(), i);
                    let plan = sc.generate(seed, i, Tier::Quick);
                    let ex = sc.execute(&plan, false);
                    let pj = if std::env::var("WTSIM_HASHES_PLAN").is_ok() { format!(" plan={plan}") } else { String::new() };
                    format!(
                        "{} {} {} {:016x} {:016x} {:?} sent={} probes={:?}{pj}",
                        id,
                        sc.name(),
                        i,
                        core::hash_value(&plan),
                        ex.trace_hash,
                        ex.class().map(|s| s.to_string()).unwrap_or_else(|| match &ex.verdict {
                            core::Verdict::Pass => "pass".into(),
                            core::Verdict::Inconclusive(w) => format!("inconclusive:{w}"),
                            _ => unreachable!(),
                        }),
                        ex.net.sent,
                        ex.probes
                    )
                });
                for r in rows {
                    println!("{r}");
                }
            }
        }
        Some("selftest") => {
            let ids: Vec<String> = if args.len() > 2 { args[2..].to_vec() } else { defs.iter().map(|d| d.id.to_string()).collect() };
            let n = std::env::var("WTSIM_SELFTEST_N").ok().and_then(|s| s.parse().ok()).unwrap_or(60usize);
            let exe = std::env::current_exe().unwrap();
            let mut bad = 0;
            for id in ids {
                let run = |threads: &str| {
                    let o = std::process::Command::new(&exe)
                        .args(["hashes", &id, &n.to_string()])
                        .env("WTSIM_THREADS", threads)
                        .output()
                        .expect("spawn");
                    String::from_utf8_lossy(&o.stdout).to_string()
                };
                let a = run("16");
                let b = run("1");
                let c = run("5");
                let la: Vec<&str> = a.lines().collect();
                let lb: Vec<&str> = b.lines().collect();
                let lc: Vec<&str> = c.lines().collect();
                let mut diffs = 0;
                for i in 0..la.len().max(lb.len()).max(lc.len()) {
                    if la.get(i) != lb.get(i) || la.get(i) != lc.get(i) {
                        diffs += 1;
                        if diffs <= 5 {
                            println!("DIVERGENCE {id}:\n  16t: {:?}\n   1t: {:?}\n   5t: {:?}", la.get(i), lb.get(i), lc.get(i));
                        }
                    }
                }
                println!("selftest determinism {id}: {} runs x 3 processes (16/1/5 threads), {} divergences", la.len(), diffs);
                bad += diffs;
            }
            std::process::exit(if bad == 0 { 0 } else { 2 });
        }
        _ => usage(),
    }
}
