//! Seeded PRNG (SplitMix64 seeding + xoshiro256**), with labelled sub-streams so that
//! independent parts of a run (plan generation, network fates, scheduling knobs) never
//! share a draw sequence: adding a draw in one place cannot perturb another.

#[derive(Clone, Debug)]
pub struct Rng {
    s: [u64; 4],
}

pub fn splitmix(x: &mut u64) -> u64 {
    *x = x.wrapping_add(0x9E37_79B9_7F4A_7C15);
    let mut z = *x;
    z = (z ^ (z >> 30)).wrapping_mul(0xBF58_476D_1CE4_E5B9);
    z = (z ^ (z >> 27)).wrapping_mul(0x94D0_49BB_1331_11EB);
    z ^ (z >> 31)
}

pub fn fnv1a(h: u64, bytes: &[u8]) -> u64 {
    let mut h = h;
    for b in bytes {
        h ^= *b as u64;
        h = h.wrapping_mul(0x0000_0100_0000_01B3);
    }
    h
}

pub const FNV_INIT: u64 = 0xcbf2_9ce4_8422_2325;

/// Stateless mix of several integers into one (used for per-packet fates).
pub fn mix(parts: &[u64]) -> u64 {
    let mut x = 0x1234_5678_9abc_def0u64;
    let mut out = 0;
    for p in parts {
        x ^= *p;
        out = splitmix(&mut x);
    }
    out
}

impl Rng {
    pub fn new(seed: u64, label: &str) -> Self {
        let mut x = seed ^ fnv1a(FNV_INIT, label.as_bytes());
        let s = [
            splitmix(&mut x),
            splitmix(&mut x),
            splitmix(&mut x),
            splitmix(&mut x),
        ];
        Self { s }
    }

    pub fn fork(&mut self, label: &str) -> Rng {
        let seed = self.next_u64();
        Rng::new(seed, label)
    }

    pub fn next_u64(&mut self) -> u64 {
        let result = self.s[1].wrapping_mul(5).rotate_left(7).wrapping_mul(9);
        let t = self.s[1] << 17;
        self.s[2] ^= self.s[0];
        self.s[3] ^= self.s[1];
        self.s[1] ^= self.s[2];
        self.s[0] ^= self.s[3];
        self.s[2] ^= t;
        self.s[3] = self.s[3].rotate_left(45);
        result
    }

    /// Uniform in `0..n` (n > 0).
    pub fn below(&mut self, n: u64) -> u64 {
        debug_assert!(n > 0);
        // multiply-shift; bias is negligible for the n used here
        ((self.next_u64() as u128 * n as u128) >> 64) as u64
    }

    /// Uniform in `lo..=hi`.
    pub fn range(&mut self, lo: u64, hi: u64) -> u64 {
        debug_assert!(lo <= hi);
        if lo == 0 && hi == u64::MAX {
            return self.next_u64();
        }
        lo + self.below(hi - lo + 1)
    }

    pub fn usize(&mut self, lo: usize, hi: usize) -> usize {
        self.range(lo as u64, hi as u64) as usize
    }

    /// True with probability `pm`/1000.
    pub fn chance_pm(&mut self, pm: u32) -> bool {
        self.below(1000) < pm as u64
    }

    pub fn coin(&mut self) -> bool {
        self.next_u64() & 1 == 1
    }

    pub fn pick<'a, T>(&mut self, xs: &'a [T]) -> &'a T {
        &xs[self.below(xs.len() as u64) as usize]
    }

    pub fn bytes(&mut self, n: usize) -> Vec<u8> {
        let mut v = Vec::with_capacity(n);
        while v.len() < n {
            let x = self.next_u64().to_le_bytes();
            let take = (n - v.len()).min(8);
            v.extend_from_slice(&x[..take]);
        }
        v
    }

    pub fn seed32(&mut self) -> [u8; 32] {
        let mut out = [0u8; 32];
        for c in out.chunks_mut(8) {
            c.copy_from_slice(&self.next_u64().to_le_bytes());
        }
        out
    }

    pub fn shuffle<T>(&mut self, xs: &mut [T]) {
        for i in (1..xs.len()).rev() {
            let j = self.below(i as u64 + 1) as usize;
            xs.swap(i, j);
        }
    }
}
