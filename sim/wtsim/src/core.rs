//! Scenario abstraction, batch driver, minimisation, replay files, known findings and
//! evidence output shared by every property check.

use crate::rng::{fnv1a, mix, FNV_INIT};
use crate::simnet::NetStats;
use crate::simrt;
use serde::de::DeserializeOwned;
use serde::Serialize;
use serde_json::{json, Value};
use std::collections::{BTreeMap, HashSet};
use std::time::Instant as WallInstant;

#[derive(Clone, Copy, Debug, PartialEq, Eq)]
pub enum Tier {
    Quick,
    Thorough,
}

impl Tier {
    pub fn name(self) -> &'static str {
        match self {
            Tier::Quick => "quick",
            Tier::Thorough => "thorough",
        }
    }
}

#[derive(Clone, Debug)]
pub enum Verdict {
    Pass,
    /// The run could not observe the property (e.g. the injected faults killed the
    /// connection first). Counted, never a violation.
    Inconclusive(String),
    Violation { class: String, detail: String },
}

#[derive(Clone, Debug)]
pub struct Exec {
    pub verdict: Verdict,
    pub net: NetStats,
    pub trace_hash: u64,
    pub sim_us: u64,
    /// Whether this run exercised what the property is about (by the scenario's rule).
    pub nontrivial: bool,
    pub probes: BTreeMap<String, u64>,
    pub trace: Vec<String>,
}

impl Exec {
    pub fn new() -> Self {
        Exec {
            verdict: Verdict::Pass,
            net: NetStats::default(),
            trace_hash: 0,
            sim_us: 0,
            nontrivial: false,
            probes: BTreeMap::new(),
            trace: Vec::new(),
        }
    }
    pub fn probe(&mut self, name: &str, n: u64) {
        *self.probes.entry(name.to_string()).or_insert(0) += n;
    }
    /// A fault injected through a seam other than the network (forced delivery boundary,
    /// short read, Pending, stream reset, cancelled call, stalled peer stream, ...): counted
    /// when it actually happened in the run. Reported as `faults_fired_other` in the evidence.
    pub fn fault(&mut self, kind: &str, n: u64) {
        *self.probes.entry(format!("fault:{kind}")).or_insert(0) += n;
    }
    pub fn violation(&mut self, class: &str, detail: String) {
        // first violation wins (stable class for shrinking)
        if !matches!(self.verdict, Verdict::Violation { .. }) {
            self.verdict = Verdict::Violation { class: class.to_string(), detail };
        }
    }
    pub fn inconclusive(&mut self, why: &str) {
        if matches!(self.verdict, Verdict::Pass) {
            self.verdict = Verdict::Inconclusive(why.to_string());
        }
    }
    pub fn is_violation(&self) -> bool {
        matches!(self.verdict, Verdict::Violation { .. })
    }
    pub fn class(&self) -> Option<&str> {
        match &self.verdict {
            Verdict::Violation { class, .. } => Some(class),
            _ => None,
        }
    }
}

impl Exec {
    /// Rewrites the property prefix of a violation class (a scenario of one property re-used
    /// under another reports under the property it is registered with).
    pub fn relabel(mut self, from: &str, to: &str) -> Self {
        if let Verdict::Violation { class, .. } = &mut self.verdict {
            if let Some(rest) = class.strip_prefix(from) {
                *class = format!("{to}{rest}");
            }
        }
        self
    }
}

pub trait Scenario: Sync + Send {
    fn name(&self) -> &'static str;
    /// Number of runs for the tier.
    fn budget(&self, tier: Tier) -> usize;
    /// `index` is the position of this run in the batch (lets a scenario sweep a finite
    /// space exhaustively before it starts sampling).
    fn generate(&self, seed: u64, index: usize, tier: Tier) -> Value;
    fn execute(&self, plan: &Value, trace: bool) -> Exec;
    fn shrink(&self, _plan: &Value) -> Vec<Value> {
        Vec::new()
    }
    /// Whether this scenario injects faults (reported separately in the evidence).
    fn faulty(&self) -> bool {
        false
    }
    /// `Some(n)`: the first n runs enumerate a finite space completely.
    fn exhaustive_prefix(&self, _tier: Tier) -> Option<usize> {
        None
    }
}

/// Typed convenience layer over `Scenario`.
pub trait TypedScenario: Sync + Send {
    type Plan: Serialize + DeserializeOwned;
    fn name(&self) -> &'static str;
    fn budget(&self, tier: Tier) -> usize;
    fn generate(&self, seed: u64, index: usize, tier: Tier) -> Self::Plan;
    fn execute(&self, plan: &Self::Plan, trace: bool) -> Exec;
    fn shrink(&self, _plan: &Self::Plan) -> Vec<Self::Plan> {
        Vec::new()
    }
    fn faulty(&self) -> bool {
        false
    }
    fn exhaustive_prefix(&self, _tier: Tier) -> Option<usize> {
        None
    }
}

pub struct Typed<T>(pub T);

impl<T: TypedScenario> Scenario for Typed<T> {
    fn name(&self) -> &'static str {
        self.0.name()
    }
    fn budget(&self, tier: Tier) -> usize {
        self.0.budget(tier)
    }
    fn generate(&self, seed: u64, index: usize, tier: Tier) -> Value {
        serde_json::to_value(self.0.generate(seed, index, tier)).expect("plan to json")
    }
    fn execute(&self, plan: &Value, trace: bool) -> Exec {
        let p: T::Plan = match serde_json::from_value(plan.clone()) {
            Ok(p) => p,
            Err(e) => {
                eprintln!("HARNESS-ERROR: cannot parse plan for {}: {e}", self.0.name());
                std::process::exit(2);
            }
        };
        self.0.execute(&p, trace)
    }
    fn shrink(&self, plan: &Value) -> Vec<Value> {
        let Ok(p) = serde_json::from_value::<T::Plan>(plan.clone()) else {
            return Vec::new();
        };
        self.0.shrink(&p).into_iter().map(|c| serde_json::to_value(c).unwrap()).collect()
    }
    fn faulty(&self) -> bool {
        self.0.faulty()
    }
    fn exhaustive_prefix(&self, tier: Tier) -> Option<usize> {
        self.0.exhaustive_prefix(tier)
    }
}

pub struct PropertyDef {
    pub id: &'static str,
    pub scenarios: Vec<Box<dyn Scenario>>,
    pub rule: &'static str,
    pub assumptions: Vec<&'static str>,
    pub real_components: Vec<&'static str>,
    pub stub_components: Vec<&'static str>,
}

pub fn hash_value(v: &Value) -> u64 {
    fnv1a(FNV_INIT, v.to_string().as_bytes())
}

/// Seed of run `i` of a scenario. Every part goes through the finaliser before the next one is
/// mixed in: with a plain running xor, two base seeds that differ only in a few low bits
/// enumerated the same set of run seeds in another order (i and i ^ d swap places), so
/// VERIF_SEED = 1, 3, 5, 7 explored the same runs.
pub fn scenario_seed(base: u64, scenario: &str, i: usize) -> u64 {
    let s1 = mix(&[base]);
    let s2 = mix(&[s1 ^ fnv1a(FNV_INIT, scenario.as_bytes())]);
    mix(&[s2 ^ i as u64])
}

pub fn verif_dir() -> String {
    std::env::var("WTSIM_VERIF_DIR").unwrap_or_else(|_| "/verif".to_string())
}

// ---- known findings --------------------------------------------------------------------

#[derive(Clone, Debug)]
pub struct KnownFinding {
    pub property: String,
    pub class: String,
    pub what: String,
}

pub fn load_known_findings() -> Vec<KnownFinding> {
    let path = format!("{}/known_findings.json", verif_dir());
    let Ok(text) = std::fs::read_to_string(&path) else {
        return Vec::new();
    };
    let v: Value = match serde_json::from_str(&text) {
        Ok(v) => v,
        Err(e) => {
            eprintln!("HARNESS-ERROR: {path}: {e}");
            std::process::exit(2);
        }
    };
    v["findings"]
        .as_array()
        .cloned()
        .unwrap_or_default()
        .iter()
        .map(|f| KnownFinding {
            property: f["property"].as_str().unwrap_or("").to_string(),
            class: f["class"].as_str().unwrap_or("").to_string(),
            what: f["what"].as_str().unwrap_or("").to_string(),
        })
        .collect()
}

// ---- minimisation ------------------------------------------------------------------------

pub fn minimise(sc: &dyn Scenario, plan: Value, class: &str, budget: usize) -> (Value, usize) {
    let mut cur = plan;
    let mut used = 0;
    'outer: loop {
        let cands = sc.shrink(&cur);
        for c in cands {
            if used >= budget {
                break 'outer;
            }
            if c == cur {
                continue;
            }
            used += 1;
            let e = sc.execute(&c, false);
            if e.class() == Some(class) {
                cur = c;
                continue 'outer;
            }
        }
        break;
    }
    (cur, used)
}

// ---- JSON shrink helpers (generic over plans) ---------------------------------------------

/// Candidates with one element (or one half) of the array at `ptr` removed.
pub fn shrink_array(plan: &Value, ptr: &str, min_len: usize) -> Vec<Value> {
    let mut out = Vec::new();
    let Some(arr) = plan.pointer(ptr).and_then(|a| a.as_array()) else {
        return out;
    };
    let n = arr.len();
    if n <= min_len {
        return out;
    }
    if n >= 4 {
        for half in 0..2 {
            let keep: Vec<Value> = if half == 0 { arr[n / 2..].to_vec() } else { arr[..n / 2].to_vec() };
            if keep.len() >= min_len {
                let mut p = plan.clone();
                *p.pointer_mut(ptr).unwrap() = Value::Array(keep);
                out.push(p);
            }
        }
    }
    for i in 0..n {
        let mut keep = arr.clone();
        keep.remove(i);
        let mut p = plan.clone();
        *p.pointer_mut(ptr).unwrap() = Value::Array(keep);
        out.push(p);
    }
    out
}

/// Candidates with the number at `ptr` set to `target`, then halved towards it.
pub fn shrink_num(plan: &Value, ptr: &str, target: u64) -> Vec<Value> {
    let mut out = Vec::new();
    let Some(cur) = plan.pointer(ptr).and_then(|a| a.as_u64()) else {
        return out;
    };
    if cur == target {
        return out;
    }
    let mut push = |v: u64| {
        if v != cur {
            let mut p = plan.clone();
            *p.pointer_mut(ptr).unwrap() = json!(v);
            out.push(p);
        }
    };
    push(target);
    if cur > target {
        push(target + (cur - target) / 2);
        push(cur - 1);
    }
    out
}

pub fn set_ptr(plan: &Value, ptr: &str, v: Value) -> Option<Value> {
    let mut p = plan.clone();
    let slot = p.pointer_mut(ptr)?;
    if *slot == v {
        return None;
    }
    *slot = v;
    Some(p)
}

/// Standard network-fault reductions for a plan with a `NetCfg` at `ptr`.
pub fn shrink_net(plan: &Value, ptr: &str) -> Vec<Value> {
    let mut out = Vec::new();
    // all faults off at once
    let mut p = plan.clone();
    let mut changed = false;
    for k in ["drop_pm", "dup_pm", "reorder_pm", "corrupt_pm", "lat_jitter_us"] {
        if let Some(slot) = p.pointer_mut(&format!("{ptr}/{k}")) {
            if slot.as_u64().unwrap_or(0) != 0 {
                *slot = json!(0);
                changed = true;
            }
        }
    }
    if changed {
        out.push(p);
    }
    for k in ["drop_pm", "dup_pm", "reorder_pm", "corrupt_pm", "lat_jitter_us"] {
        out.extend(shrink_num(plan, &format!("{ptr}/{k}"), 0).into_iter().take(1));
    }
    out
}

// ---- batch driver -------------------------------------------------------------------------

struct ScenarioAgg {
    name: String,
    faulty: bool,
    evaluations: u64,
    nontrivial: u64,
    distinct_plans: HashSet<u64>,
    distinct_traces: HashSet<u64>,
    inconclusive: u64,
    inconclusive_reasons: BTreeMap<String, u64>,
    net: NetStats,
    sim_us: u64,
    probes: BTreeMap<String, u64>,
    samples: Vec<Value>,
    violations: Vec<(u64, usize, String, String)>, // seed, index, class, detail
    exhaustive: Option<usize>,
}

pub struct CheckOutcome {
    pub exit_code: i32,
}

pub fn wall_budget_s(tier: Tier) -> f64 {
    std::env::var("WTSIM_WALL_S")
        .ok()
        .and_then(|s| s.parse().ok())
        .unwrap_or(match tier {
            Tier::Quick => 240.0,
            Tier::Thorough => 3000.0,
        })
}

pub fn run_check(def: &PropertyDef, tier: Tier, base_seed: u64) -> CheckOutcome {
    let t0 = WallInstant::now();
    let known = load_known_findings();
    let mut aggs: Vec<ScenarioAgg> = Vec::new();
    let wall_budget = wall_budget_s(tier);
    let mut truncated = false;

    for sc in &def.scenarios {
        let budget = sc.budget(tier);
        let mut agg = ScenarioAgg {
            name: sc.name().to_string(),
            faulty: sc.faulty(),
            evaluations: 0,
            nontrivial: 0,
            distinct_plans: HashSet::new(),
            distinct_traces: HashSet::new(),
            inconclusive: 0,
            inconclusive_reasons: BTreeMap::new(),
            net: NetStats::default(),
            sim_us: 0,
            probes: BTreeMap::new(),
            samples: Vec::new(),
            violations: Vec::new(),
            exhaustive: sc.exhaustive_prefix(tier),
        };
        let chunk = 2048.max(simrt::n_threads() * 16);
        let mut i0 = 0;
        while i0 < budget {
            if t0.elapsed().as_secs_f64() > wall_budget {
                truncated = true;
                break;
            }
            let i1 = (i0 + chunk).min(budget);
            let idxs: Vec<usize> = (i0..i1).collect();
            let results = simrt::par_map(&idxs, |&i| {
                let seed = scenario_seed(base_seed, sc.name(), i);
                let plan = sc.generate(seed, i, tier);
                let ex = sc.execute(&plan, false);
                let ph = hash_value(&plan);
                let sample = if i < 2 { Some(plan) } else { None };
                (seed, i, ph, ex, sample)
            });
            for (seed, i, ph, ex, sample) in results {
                agg.evaluations += 1;
                if ex.nontrivial {
                    agg.nontrivial += 1;
                    agg.distinct_plans.insert(ph);
                }
                agg.distinct_traces.insert(ex.trace_hash);
                agg.net.add(&ex.net);
                agg.sim_us += ex.sim_us;
                for (k, v) in &ex.probes {
                    *agg.probes.entry(k.clone()).or_insert(0) += v;
                }
                if let Some(s) = sample {
                    agg.samples.push(json!({"scenario": sc.name(), "seed": seed, "plan": s}));
                }
                match ex.verdict {
                    Verdict::Pass => {}
                    Verdict::Inconclusive(why) => {
                        agg.inconclusive += 1;
                        *agg.inconclusive_reasons.entry(why).or_insert(0) += 1;
                    }
                    Verdict::Violation { class, detail } => {
                        agg.violations.push((seed, i, class, detail));
                    }
                }
            }
            i0 = i1;
        }
        aggs.push(agg);
    }

    // ---- violations: group by class, minimise, write replay, classify -----------------
    let mut violation_lines: Vec<String> = Vec::new();
    let mut known_lines: Vec<String> = Vec::new();
    let mut n_violations = 0u64;
    let mut harness_error = false;
    std::fs::create_dir_all(format!("{}/replays", verif_dir())).ok();
    for (si, agg) in aggs.iter().enumerate() {
        let sc = &def.scenarios[si];
        let mut by_class: BTreeMap<String, Vec<&(u64, usize, String, String)>> = BTreeMap::new();
        for v in &agg.violations {
            by_class.entry(v.2.clone()).or_default().push(v);
        }
        for (class, list) in by_class {
            n_violations += list.len() as u64;
            let is_known = known.iter().find(|k| k.property == def.id && k.class == class);
            let first = list.iter().min_by_key(|v| v.1).unwrap();
            let (seed, index, _, detail) = (first.0, first.1, &first.2, &first.3);
            let plan = sc.generate(seed, index, tier);
            let shrink_budget = if is_known.is_some() { 0 } else { 150 };
            let (min_plan, used) = minimise(sc.as_ref(), plan.clone(), &class, shrink_budget);
            // re-execute the minimised plan for its detail + trace
            let ex = sc.execute(&min_plan, true);
            let (final_plan, final_detail, trace) = if ex.class() == Some(class.as_str()) {
                let d = match &ex.verdict {
                    Verdict::Violation { detail, .. } => detail.clone(),
                    _ => unreachable!(),
                };
                (min_plan, d, ex.trace)
            } else {
                (plan, detail.clone(), Vec::new())
            };
            let file = format!(
                "{}/replays/{}-{}-{:016x}.json",
                verif_dir(),
                def.id,
                sc.name(),
                seed
            );
            let replay = json!({
                "property": def.id,
                "scenario": sc.name(),
                "seed": seed,
                "index": index,
                "class": class,
                "detail": final_detail,
                "occurrences_in_batch": list.len(),
                "shrink_executions": used,
                "plan": final_plan,
                "trace_tail": trace.iter().rev().take(60).rev().collect::<Vec<_>>(),
            });
            std::fs::write(&file, serde_json::to_string_pretty(&replay).unwrap()).ok();
            // the replay file must reproduce in a fresh process
            let reproduced = replay_in_subprocess(&file, &class);
            if !reproduced {
                eprintln!(
                    "HARNESS-ERROR: replay of {file} did not reproduce class {class} in a fresh process"
                );
                harness_error = true;
            }
            if !reproduced && is_known.is_none() {
                // not reported as a violation: a replay file that does not reproduce is no evidence
                continue;
            }
            match is_known {
                Some(k) => known_lines.push(format!(
                    "KNOWN-FINDING: property={} {} [class {} x{} e.g. replay={}]",
                    def.id,
                    k.what,
                    class,
                    list.len(),
                    file
                )),
                None => violation_lines.push(format!(
                    "VIOLATION property={} replay={} class={} occurrences={} detail={}",
                    def.id,
                    file,
                    class,
                    list.len(),
                    final_detail.replace('\n', " ")
                )),
            }
        }
    }

    // ---- evidence ------------------------------------------------------------------------
    let wall_s = t0.elapsed().as_secs_f64();
    let evaluations: u64 = aggs.iter().map(|a| a.evaluations).sum();
    let distinct_nontrivial: u64 = aggs.iter().map(|a| a.distinct_plans.len() as u64).sum();
    let distinct_traces: u64 = aggs.iter().map(|a| a.distinct_traces.len() as u64).sum();
    let sim_us: u64 = aggs.iter().map(|a| a.sim_us).sum();
    let inconclusive: u64 = aggs.iter().map(|a| a.inconclusive).sum();
    let mut net = NetStats::default();
    for a in &aggs {
        net.add(&a.net);
    }
    let mut probes: BTreeMap<String, u64> = BTreeMap::new();
    for a in &aggs {
        for (k, v) in &a.probes {
            *probes.entry(k.clone()).or_insert(0) += v;
        }
    }
    let zero_probes: Vec<&String> = probes.iter().filter(|(_, v)| **v == 0).map(|(k, _)| k).collect();
    let samples: Vec<Value> = aggs.iter().flat_map(|a| a.samples.iter().take(1).cloned()).collect();
    let per_scenario: Vec<Value> = aggs
        .iter()
        .map(|a| {
            json!({
                "scenario": a.name,
                "fault_injecting": a.faulty,
                "evaluations": a.evaluations,
                "nontrivial_runs": a.nontrivial,
                "distinct_nontrivial_plans": a.distinct_plans.len(),
                "distinct_traces": a.distinct_traces.len(),
                "inconclusive": a.inconclusive,
                "inconclusive_reasons": a.inconclusive_reasons,
                "violations": a.violations.len(),
                "simulated_seconds": a.sim_us as f64 / 1e6,
                "faults_fired": {
                    "dropped": a.net.dropped, "duplicated": a.net.duplicated,
                    "reordered": a.net.reordered, "delivery_order_inversions": a.net.inversions,
                    "corrupted": a.net.corrupted, "blocked_by_partition": a.net.blocked,
                    "unroutable": a.net.unroutable, "inbound_stalls": a.net.stalled_holds,
                    "nat_rebinds": a.net.rebinds,
                },
                "faults_fired_other": a.probes.iter().filter(|(k, _)| k.starts_with("fault:")).map(|(k, v)| (k[6..].to_string(), *v)).collect::<BTreeMap<String, u64>>(),
                "datagrams_sent": a.net.sent,
                "probes": a.probes,
                "exhaustive_prefix": a.exhaustive,
            })
        })
        .collect();
    let exhaustive_all = !truncated && aggs.iter().all(|a| a.exhaustive.map(|n| n as u64 >= a.evaluations).unwrap_or(false));
    let evidence = json!({
        "property_id": def.id,
        "tier": tier.name(),
        "seed": (base_seed & 0x7fff_ffff_ffff_ffff),
        "level": "exploration",
        "coverage": {
            "evaluations": evaluations,
            "distinct_nontrivial": distinct_nontrivial,
            "rule": def.rule,
            "samples": samples,
            "exhaustive": exhaustive_all,
            "runs_per_hour": if wall_s > 0.0 { (evaluations as f64 / wall_s * 3600.0) as u64 } else { 0 },
            "seeds_per_hour": if wall_s > 0.0 { (evaluations as f64 / wall_s * 3600.0) as u64 } else { 0 },
            "simulated_seconds_covered": sim_us as f64 / 1e6,
            "distinct_traces": distinct_traces,
            "distinct_traces_measure": "distinct FNV hashes of the ordered decision log (every datagram's send time, link, per-link index, fate, delay; every delivery; every application-visible event noted by the scenario)",
            "inconclusive_runs": inconclusive,
            "faults_fired_total": {
                "dropped": net.dropped, "duplicated": net.duplicated, "reordered": net.reordered,
                "delivery_order_inversions": net.inversions, "corrupted": net.corrupted,
                "blocked_by_partition": net.blocked, "unroutable": net.unroutable,
                "inbound_stalls": net.stalled_holds, "nat_rebinds": net.rebinds,
            },
            "faults_fired_other_total": probes.iter().filter(|(k, _)| k.starts_with("fault:")).map(|(k, v)| (k[6..].to_string(), *v)).collect::<BTreeMap<String, u64>>(),
            "datagrams_sent": net.sent,
            "probes": probes,
            "probes_stuck_at_zero": zero_probes,
            "per_scenario": per_scenario,
            "components_real": def.real_components,
            "components_stubbed": def.stub_components,
            "worker_threads": simrt::n_threads(),
            "truncated_by_wall_budget": truncated,
            "known_findings_reported": known_lines.len(),
        },
        "assumptions": def.assumptions,
        "wall_s": wall_s,
        "violations": violation_lines.len(),
    });
    let evdir = format!("{}/evidence", verif_dir());
    std::fs::create_dir_all(&evdir).ok();
    let evfile = format!("{evdir}/{}.json", def.id);
    if let Err(e) = std::fs::write(&evfile, serde_json::to_string_pretty(&evidence).unwrap()) {
        eprintln!("HARNESS-ERROR: cannot write {evfile}: {e}");
        return CheckOutcome { exit_code: 2 };
    }

    println!(
        "check {} tier={} seed={} runs={} distinct_nontrivial={} distinct_traces={} inconclusive={} sim_s={:.0} wall_s={:.1} violating_runs={}",
        def.id,
        tier.name(),
        base_seed,
        evaluations,
        distinct_nontrivial,
        distinct_traces,
        inconclusive,
        sim_us as f64 / 1e6,
        wall_s,
        n_violations
    );
    for a in &aggs {
        println!(
            "  scenario {:<28} runs={:<8} nontrivial={:<8} inconclusive={:<6} violations={:<5} faults_fired={} probes={:?}",
            a.name,
            a.evaluations,
            a.nontrivial,
            a.inconclusive,
            a.violations.len(),
            a.net.faults_fired() + a.probes.iter().filter(|(k, _)| k.starts_with("fault:")).map(|(_, v)| *v).sum::<u64>(),
            a.probes
        );
        // a batch that mostly cannot observe the property is a harness problem, not a pass
        if a.evaluations >= 50 && a.inconclusive * 2 > a.evaluations {
            eprintln!(
                "HARNESS-ERROR: scenario {} had {} inconclusive runs out of {} ({:?})",
                a.name, a.inconclusive, a.evaluations, a.inconclusive_reasons
            );
            harness_error = true;
        }
        // (a batch whose runs all ended in a violation has nothing non-trivial either: that is a
        // finding, reported below, not a harness problem)
        if a.evaluations >= 50 && a.nontrivial == 0 && a.violations.is_empty() {
            eprintln!("HARNESS-ERROR: scenario {} had no non-trivial run", a.name);
            harness_error = true;
        }
    }
    for l in &known_lines {
        println!("{l}");
    }
    for l in &violation_lines {
        println!("{l}");
    }
    // a violation whose replay file reproduced in a fresh process is reported as such (exit 1)
    // even if the batch also had a harness-level problem; without any such violation a harness
    // problem is exit 2 and nothing is claimed
    let exit_code = if !violation_lines.is_empty() {
        1
    } else if harness_error {
        2
    } else {
        0
    };
    CheckOutcome { exit_code }
}

fn replay_in_subprocess(file: &str, class: &str) -> bool {
    let exe = match std::env::current_exe() {
        Ok(e) => e,
        Err(_) => return false,
    };
    let out = std::process::Command::new(exe).arg("replay").arg(file).env("WTSIM_REPLAY_QUIET", "1").output();
    match out {
        Ok(o) => {
            let s = String::from_utf8_lossy(&o.stdout);
            o.status.code() == Some(1) && s.contains(&format!("class={class}"))
        }
        Err(_) => false,
    }
}

/// `wtsim replay <file>`: re-executes the plan of a replay file; exit 1 + VIOLATION line if
/// the recorded violation class reproduces, exit 0 if the run passes, exit 2 otherwise.
pub fn replay_file(defs: &[PropertyDef], file: &str) -> i32 {
    let text = match std::fs::read_to_string(file) {
        Ok(t) => t,
        Err(e) => {
            eprintln!("HARNESS-ERROR: {file}: {e}");
            return 2;
        }
    };
    let v: Value = match serde_json::from_str(&text) {
        Ok(v) => v,
        Err(e) => {
            eprintln!("HARNESS-ERROR: {file}: {e}");
            return 2;
        }
    };
    let prop = v["property"].as_str().unwrap_or("");
    let scn = v["scenario"].as_str().unwrap_or("");
    let class = v["class"].as_str().unwrap_or("");
    let Some(def) = defs.iter().find(|d| d.id == prop) else {
        eprintln!("HARNESS-ERROR: unknown property {prop}");
        return 2;
    };
    let Some(sc) = def.scenarios.iter().find(|s| s.name() == scn) else {
        eprintln!("HARNESS-ERROR: unknown scenario {scn}");
        return 2;
    };
    let quiet = std::env::var("WTSIM_REPLAY_QUIET").is_ok();
    let ex = sc.execute(&v["plan"], !quiet);
    if !quiet {
        for l in &ex.trace {
            println!("{l}");
        }
        println!("trace_hash={:016x} probes={:?}", ex.trace_hash, ex.probes);
    }
    match &ex.verdict {
        Verdict::Violation { class: c, detail } => {
            println!("VIOLATION property={prop} replay={file} class={c} detail={}", detail.replace('\n', " "));
            if c == class {
                1
            } else {
                eprintln!("note: recorded class was {class}");
                1
            }
        }
        Verdict::Pass => {
            println!("replay {file}: PASS (no violation on this tree)");
            0
        }
        Verdict::Inconclusive(w) => {
            println!("replay {file}: inconclusive ({w})");
            0
        }
    }
}
