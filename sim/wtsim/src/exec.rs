//! A tiny seeded executor for UNIT-level exploration: tasks are plain futures, the executor
//! keeps the set of woken tasks and *itself* picks the next one to poll with the PRNG (random
//! or priority-based / PCT-style), and can cancel (drop) a task at a chosen poll count. No
//! runtime, no threads, no clock: `tokio::sync` primitives are runtime-agnostic, so the real
//! watch / mpsc / Mutex code runs under schedules this executor decides.

use crate::rng::Rng;
use std::future::Future;
use std::pin::Pin;
use std::sync::atomic::{AtomicBool, Ordering};
use std::sync::Arc;
use std::task::{Context, Poll, Wake, Waker};

struct Flag(AtomicBool);

impl Wake for Flag {
    fn wake(self: Arc<Self>) {
        self.0.store(true, Ordering::SeqCst);
    }
    fn wake_by_ref(self: &Arc<Self>) {
        self.0.store(true, Ordering::SeqCst);
    }
}

struct Task<'a> {
    fut: Option<Pin<Box<dyn Future<Output = ()> + 'a>>>,
    woken: Arc<Flag>,
    polls: u32,
    cancel_at: Option<u32>,
    priority: u64,
}

pub struct Exec<'a> {
    tasks: Vec<Task<'a>>,
    pub rng: Rng,
    pub pct: bool,
    pub steps: u64,
    pub schedule_hash: u64,
    pub cancelled: u32,
}

#[derive(Debug, PartialEq)]
pub enum Outcome {
    AllDone,
    /// no task is runnable but some have not finished
    Stuck(Vec<usize>),
    StepLimit,
}

impl<'a> Exec<'a> {
    pub fn new(rng: Rng, pct: bool) -> Self {
        Exec { tasks: Vec::new(), rng, pct, steps: 0, schedule_hash: crate::rng::FNV_INIT, cancelled: 0 }
    }

    /// Adds a task; `cancel_at = Some(n)` drops the future right before its n-th poll.
    pub fn spawn(&mut self, fut: impl Future<Output = ()> + 'a, cancel_at: Option<u32>) -> usize {
        let priority = self.rng.next_u64();
        self.tasks.push(Task { fut: Some(Box::pin(fut)), woken: Arc::new(Flag(AtomicBool::new(true))), polls: 0, cancel_at, priority });
        self.tasks.len() - 1
    }

    pub fn run(&mut self, max_steps: u64) -> Outcome {
        loop {
            let runnable: Vec<usize> = self.tasks.iter().enumerate().filter(|(_, t)| t.fut.is_some() && t.woken.0.load(Ordering::SeqCst)).map(|(i, _)| i).collect();
            if runnable.is_empty() {
                let pending: Vec<usize> = self.tasks.iter().enumerate().filter(|(_, t)| t.fut.is_some()).map(|(i, _)| i).collect();
                return if pending.is_empty() { Outcome::AllDone } else { Outcome::Stuck(pending) };
            }
            if self.steps >= max_steps {
                return Outcome::StepLimit;
            }
            self.steps += 1;
            let pick = if self.pct {
                // highest priority runs; occasionally a priority is lowered (PCT change point)
                let i = *runnable.iter().max_by_key(|i| self.tasks[**i].priority).unwrap();
                if self.rng.chance_pm(150) {
                    self.tasks[i].priority = self.rng.next_u64() >> 8;
                }
                i
            } else {
                runnable[self.rng.below(runnable.len() as u64) as usize]
            };
            self.schedule_hash = crate::rng::fnv1a(self.schedule_hash, &[pick as u8]);
            let t = &mut self.tasks[pick];
            t.polls += 1;
            if t.cancel_at == Some(t.polls) {
                t.fut = None; // dropped mid-flight: cancellation at this await point
                self.cancelled += 1;
                continue;
            }
            t.woken.0.store(false, Ordering::SeqCst);
            let waker = Waker::from(t.woken.clone());
            let mut cx = Context::from_waker(&waker);
            if let Poll::Ready(()) = t.fut.as_mut().unwrap().as_mut().poll(&mut cx) {
                t.fut = None;
            }
        }
    }
}

/// A future that returns Pending once (waking itself) — an explicit scheduling point.
pub struct YieldNow(bool);

pub fn yield_now() -> YieldNow {
    YieldNow(false)
}

impl Future for YieldNow {
    type Output = ();
    fn poll(mut self: Pin<&mut Self>, cx: &mut Context<'_>) -> Poll<()> {
        if self.0 {
            Poll::Ready(())
        } else {
            self.0 = true;
            cx.waker().wake_by_ref();
            Poll::Pending
        }
    }
}
