//! Raw peer: a plain `quinn` endpoint on the same SimNet (so TLS, QUIC framing, loss
//! recovery and flow control are real) that speaks HTTP/3 + WebTransport through the
//! independent reference codec and controls bytes, segmentation and timing exactly.
//! It also records everything the endpoint under test emits.

use crate::harness;
use crate::refcodec as rc;
use crate::simnet::{SimNet, SimSocket};
use std::collections::BTreeMap;
use std::net::SocketAddr;
use std::sync::{Arc, Mutex};
use std::time::Duration;
use wtransport::quinn;

#[derive(Clone, Debug, Default)]
pub struct StreamRec {
    pub bytes: Vec<u8>,
    pub fin: bool,
    pub reset: Option<u64>,
    pub lost: bool,
}

#[derive(Default, Debug)]
pub struct RecState {
    /// unidirectional streams opened by the endpoint under test, by QUIC stream id
    pub uni: BTreeMap<u64, StreamRec>,
    /// bidirectional streams opened by the endpoint under test (its sending direction)
    pub bidi: BTreeMap<u64, StreamRec>,
    pub datagrams: Vec<Vec<u8>>,
}

#[derive(Clone, Default)]
pub struct Recorder(pub Arc<Mutex<RecState>>);

async fn record_stream(mut recv: quinn::RecvStream, rec: Recorder, id: u64, bidi: bool) {
    let mut buf = vec![0u8; 4096];
    loop {
        let r = recv.read(&mut buf).await;
        let mut st = rec.0.lock().unwrap();
        let e = if bidi { st.bidi.entry(id).or_default() } else { st.uni.entry(id).or_default() };
        match r {
            Ok(Some(n)) => e.bytes.extend_from_slice(&buf[..n]),
            Ok(None) => {
                e.fin = true;
                return;
            }
            Err(quinn::ReadError::Reset(c)) => {
                e.reset = Some(c.into_inner());
                return;
            }
            Err(_) => {
                e.lost = true;
                return;
            }
        }
    }
}

/// Records every uni stream and datagram the endpoint sends. Bidirectional streams are
/// not accepted here (scenarios that need them accept them themselves), unless `bidi`.
pub fn start_recorder(conn: &quinn::Connection, bidi: bool) -> Recorder {
    let rec = Recorder::default();
    {
        let (conn, rec) = (conn.clone(), rec.clone());
        tokio::spawn(async move {
            while let Ok(recv) = conn.accept_uni().await {
                let id = quinn::VarInt::from(recv.id()).into_inner();
                rec.0.lock().unwrap().uni.entry(id).or_default();
                tokio::spawn(record_stream(recv, rec.clone(), id, false));
            }
        });
    }
    {
        let (conn, rec) = (conn.clone(), rec.clone());
        tokio::spawn(async move {
            while let Ok(d) = conn.read_datagram().await {
                rec.0.lock().unwrap().datagrams.push(d.to_vec());
            }
        });
    }
    if bidi {
        let (conn, rec) = (conn.clone(), rec.clone());
        tokio::spawn(async move {
            while let Ok((_send, recv)) = conn.accept_bi().await {
                let id = quinn::VarInt::from(recv.id()).into_inner();
                rec.0.lock().unwrap().bidi.entry(id).or_default();
                // keep the send half alive inside the task so the stream is not reset
                let rec = rec.clone();
                tokio::spawn(async move {
                    let _keep = _send;
                    record_stream(recv, rec, id, true).await;
                });
            }
        });
    }
    rec
}

pub fn sid(s: quinn::StreamId) -> u64 {
    quinn::VarInt::from(s).into_inner()
}

pub fn raw_client_endpoint(
    net: &SimNet,
    addr: SocketAddr,
    transport: quinn::TransportConfig,
    seed: [u8; 32],
    alpn: &[u8],
) -> (quinn::Endpoint, Arc<SimSocket>) {
    let sock = net.socket(addr);
    let mut epc = quinn::EndpointConfig::default();
    epc.rng_seed(Some(seed));
    let mut ep = quinn::Endpoint::new_with_abstract_socket(epc, None, sock.clone(), harness::tokio_runtime()).expect("raw client endpoint");
    let mut tls = harness::no_verify_client_tls();
    tls.alpn_protocols = vec![alpn.to_vec()];
    let crypto = quinn::crypto::rustls::QuicClientConfig::try_from(tls).expect("quic client crypto");
    let mut cfg = quinn::ClientConfig::new(Arc::new(crypto));
    cfg.transport_config(Arc::new(transport));
    ep.set_default_client_config(cfg);
    (ep, sock)
}

pub fn raw_server_endpoint(
    net: &SimNet,
    addr: SocketAddr,
    transport: quinn::TransportConfig,
    seed: [u8; 32],
) -> (quinn::Endpoint, Arc<SimSocket>) {
    let sock = net.socket(addr);
    let mut epc = quinn::EndpointConfig::default();
    epc.rng_seed(Some(seed));
    let tls = wtransport::tls::server::build_default_tls_config(harness::fixed_identity());
    let crypto = quinn::crypto::rustls::QuicServerConfig::try_from(tls).expect("quic server crypto");
    let mut cfg = quinn::ServerConfig::with_crypto(Arc::new(crypto));
    cfg.transport_config(Arc::new(transport));
    let ep = quinn::Endpoint::new_with_abstract_socket(epc, Some(cfg), sock.clone(), harness::tokio_runtime()).expect("raw server endpoint");
    (ep, sock)
}

pub async fn write_all(send: &mut quinn::SendStream, bytes: &[u8]) -> Result<(), String> {
    send.write_all(bytes).await.map_err(|e| format!("raw write: {e:?}"))
}

/// Opens the raw peer's control stream and sends `settings` as the first frame.
pub async fn open_control(conn: &quinn::Connection, settings: &[(u64, u64)]) -> Result<quinn::SendStream, String> {
    let mut s = conn.open_uni().await.map_err(|e| format!("raw open_uni: {e:?}"))?;
    let mut b = rc::varint(rc::STREAM_CONTROL);
    b.extend_from_slice(&rc::frame(rc::FRAME_SETTINGS, &rc::settings_payload(settings)));
    write_all(&mut s, &b).await?;
    Ok(s)
}

/// Reads from `recv` until at least one complete non-GREASE frame is available; returns
/// all complete frames read so far.
pub async fn read_frames_until(
    recv: &mut quinn::RecvStream,
    buf: &mut Vec<u8>,
    want: impl Fn(&[rc::RFrame]) -> bool,
) -> Result<Vec<rc::RFrame>, String> {
    let mut tmp = vec![0u8; 4096];
    loop {
        let (frames, _) = rc::parse_frames(buf);
        if want(&frames) {
            return Ok(frames);
        }
        match recv.read(&mut tmp).await {
            Ok(Some(n)) => buf.extend_from_slice(&tmp[..n]),
            Ok(None) => return Err(format!("stream finished; have {} frames", frames.len())),
            Err(e) => return Err(format!("raw read: {e:?}")),
        }
    }
}

pub struct RawSession {
    pub conn: quinn::Connection,
    pub control: quinn::SendStream,
    pub req_send: quinn::SendStream,
    pub req_recv: quinn::RecvStream,
    pub session_id: u64,
    pub response: rc::FieldSection,
    pub req_buf: Vec<u8>,
}

/// Raw client: QUIC connect, control stream + SETTINGS, extended CONNECT, read response.
pub async fn raw_client_session(
    ep: &quinn::Endpoint,
    server: SocketAddr,
    authority: &str,
    path: &str,
) -> Result<RawSession, String> {
    let conn = ep
        .connect(server, "localhost")
        .map_err(|e| format!("raw connect: {e:?}"))?
        .await
        .map_err(|e| format!("raw handshake: {e:?}"))?;
    let control = open_control(&conn, &rc::default_peer_settings()).await?;
    let (mut req_send, mut req_recv) = conn.open_bi().await.map_err(|e| format!("raw open_bi: {e:?}"))?;
    let session_id = sid(req_send.id());
    let fields = rc::connect_request_fields(authority, path);
    write_all(&mut req_send, &rc::headers_frame(&fields, rc::EncStyle::PlainLiteral)).await?;
    let mut req_buf = Vec::new();
    let frames = read_frames_until(&mut req_recv, &mut req_buf, |f| f.iter().any(|x| x.ty == rc::FRAME_HEADERS)).await?;
    let h = frames.iter().find(|x| x.ty == rc::FRAME_HEADERS).unwrap();
    let response = rc::qpack_decode(&h.payload)?;
    // drop what was consumed so later reads see only what follows the response
    let (_, used) = rc::parse_frames(&req_buf);
    req_buf.drain(..used);
    Ok(RawSession { conn, control, req_send, req_recv, session_id, response, req_buf })
}

pub struct RawServerSession {
    pub conn: quinn::Connection,
    pub control: quinn::SendStream,
    pub req_send: quinn::SendStream,
    pub req_recv: quinn::RecvStream,
    pub session_id: u64,
    pub request: rc::FieldSection,
    pub req_buf: Vec<u8>,
}

/// Raw server: accept QUIC, control stream + SETTINGS, accept the CONNECT stream, read the
/// request HEADERS. The response is left to the caller.
pub async fn raw_server_accept(ep: &quinn::Endpoint) -> Result<RawServerSession, String> {
    let inc = ep.accept().await.ok_or("raw endpoint closed")?;
    let conn = inc.await.map_err(|e| format!("raw accept: {e:?}"))?;
    let control = open_control(&conn, &rc::default_peer_settings()).await?;
    let (req_send, mut req_recv) = conn.accept_bi().await.map_err(|e| format!("raw accept_bi: {e:?}"))?;
    let session_id = sid(req_send.id());
    let mut req_buf = Vec::new();
    let frames = read_frames_until(&mut req_recv, &mut req_buf, |f| f.iter().any(|x| x.ty == rc::FRAME_HEADERS)).await?;
    let h = frames.iter().find(|x| x.ty == rc::FRAME_HEADERS).unwrap();
    let request = rc::qpack_decode(&h.payload)?;
    let (_, used) = rc::parse_frames(&req_buf);
    req_buf.drain(..used);
    Ok(RawServerSession { conn, control, req_send, req_recv, session_id, request, req_buf })
}

pub fn status_fields(status: &str) -> Vec<(String, String)> {
    vec![(":status".to_string(), status.to_string())]
}

/// What the raw peer observed when the endpoint under test closed the connection.
pub fn close_code(e: &quinn::ConnectionError) -> Option<u64> {
    match e {
        quinn::ConnectionError::ApplicationClosed(c) => Some(c.error_code.into_inner()),
        _ => None,
    }
}

pub async fn wait_closed(conn: &quinn::Connection, max: Duration) -> Option<quinn::ConnectionError> {
    tokio::time::timeout(max, conn.closed()).await.ok()
}

pub const RAW_CLIENT_ADDR: &str = "10.0.0.3:50001";
pub const RAW_SERVER_ADDR: &str = "10.0.0.4:4433";
