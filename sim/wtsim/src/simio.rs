//! Simulated byte source / sink for the sans-IO crate's own `AsyncRead` / `AsyncWrite` seams:
//! the PRNG decides how many bytes each poll delivers, when a poll returns `Pending` (with an
//! immediate, delayed or no wake-up), and how the stream ends (FIN, reset, not-connected) at a
//! chosen offset. A small driver polls a future to completion under those decisions.

use crate::rng::Rng;
use std::future::Future;
use std::pin::Pin;
use std::sync::atomic::{AtomicU64, Ordering};
use std::sync::Arc;
use std::task::{Context, Poll, Wake, Waker};
use wtransport_proto::bytes::{AsyncRead, AsyncWrite};

/// Per-thread counts of what the simulated source / sink actually did (one run = one thread).
#[derive(Clone, Copy, Default, Debug)]
pub struct IoStats {
    pub pendings: u64,
    pub pendings_without_wake: u64,
    pub short_reads: u64,
    pub ended_fin: u64,
    pub ended_reset: u64,
    pub ended_not_connected: u64,
    pub short_writes: u64,
    pub write_errors: u64,
}

thread_local! {
    static STATS: std::cell::Cell<IoStats> = const { std::cell::Cell::new(IoStats { pendings: 0, pendings_without_wake: 0, short_reads: 0, ended_fin: 0, ended_reset: 0, ended_not_connected: 0, short_writes: 0, write_errors: 0 }) };
}

fn stat(f: impl FnOnce(&mut IoStats)) {
    STATS.with(|s| {
        let mut v = s.get();
        f(&mut v);
        s.set(v);
    });
}

pub fn take_stats() -> IoStats {
    STATS.with(|s| s.replace(IoStats::default()))
}

#[derive(Clone, Copy, Debug, PartialEq)]
pub enum End {
    Fin,
    Reset,
    NotConnected,
}

pub struct SimReader {
    pub data: Vec<u8>,
    pub pos: usize,
    pub rng: Rng,
    pub max_chunk: usize,
    pub pending_pm: u32,
    /// the stream ends (per `end`) once `end_at` bytes have been delivered
    pub end_at: usize,
    pub end: End,
    pub polls: u64,
    pub pendings: u64,
    pub largest_request: usize,
}

impl SimReader {
    pub fn new(data: Vec<u8>, rng: Rng, max_chunk: usize, pending_pm: u32, end_at: usize, end: End) -> Self {
        SimReader { data, pos: 0, rng, max_chunk: max_chunk.max(1), pending_pm, end_at, end, polls: 0, pendings: 0, largest_request: 0 }
    }
}

impl AsyncRead for SimReader {
    fn poll_read(self: Pin<&mut Self>, cx: &mut Context<'_>, buf: &mut [u8]) -> Poll<std::io::Result<usize>> {
        let this = self.get_mut();
        let (pending_pm, max_chunk) = (this.pending_pm, this.max_chunk);
        this.polls += 1;
        this.largest_request = this.largest_request.max(buf.len());
        if this.pendings < 10_000 && this.rng.chance_pm(pending_pm) {
            this.pendings += 1;
            // immediate wake-up two times out of three; otherwise rely on the driver's re-poll
            // (a spurious poll is always legal)
            if this.rng.below(3) != 0 {
                cx.waker().wake_by_ref();
                stat(|s| s.pendings += 1);
            } else {
                stat(|s| {
                    s.pendings += 1;
                    s.pendings_without_wake += 1
                });
            }
            return Poll::Pending;
        }
        let limit = this.end_at.min(this.data.len());
        if this.pos >= limit {
            stat(|s| match this.end {
                End::Fin => s.ended_fin += 1,
                End::Reset => s.ended_reset += 1,
                End::NotConnected => s.ended_not_connected += 1,
            });
            return Poll::Ready(match this.end {
                End::Fin => Ok(0),
                End::Reset => Err(std::io::Error::new(std::io::ErrorKind::ConnectionReset, "sim reset")),
                End::NotConnected => Err(std::io::Error::new(std::io::ErrorKind::NotConnected, "sim not connected")),
            });
        }
        if buf.is_empty() {
            return Poll::Ready(Ok(0));
        }
        let chunk = this.rng.usize(1, max_chunk);
        let n = buf.len().min(chunk).min(limit - this.pos);
        if n < buf.len() {
            stat(|s| s.short_reads += 1);
        }
        let pos = this.pos;
        buf[..n].copy_from_slice(&this.data[pos..pos + n]);
        this.pos += n;
        Poll::Ready(Ok(n))
    }
}

pub struct SimWriter {
    pub out: Vec<u8>,
    pub rng: Rng,
    pub max_chunk: usize,
    pub pending_pm: u32,
    /// fail with `end` once this many bytes have been accepted
    pub fail_at: Option<usize>,
    pub end: End,
}

impl AsyncWrite for SimWriter {
    fn poll_write(self: Pin<&mut Self>, cx: &mut Context<'_>, buf: &[u8]) -> Poll<std::io::Result<usize>> {
        let this = self.get_mut();
        let (pending_pm, max_chunk) = (this.pending_pm, this.max_chunk.max(1));
        if this.rng.chance_pm(pending_pm) {
            cx.waker().wake_by_ref();
            stat(|s| s.pendings += 1);
            return Poll::Pending;
        }
        if let Some(f) = this.fail_at {
            if this.out.len() >= f {
                stat(|s| s.write_errors += 1);
                return Poll::Ready(Err(match this.end {
                    End::Reset => std::io::Error::new(std::io::ErrorKind::ConnectionReset, "sim stop"),
                    _ => std::io::Error::new(std::io::ErrorKind::NotConnected, "sim not connected"),
                }));
            }
        }
        let mut n = buf.len().min(this.rng.usize(1, max_chunk));
        if let Some(f) = this.fail_at {
            n = n.min(f - this.out.len()).max(1);
        }
        let n = n.min(buf.len());
        if n < buf.len() {
            stat(|s| s.short_writes += 1);
        }
        this.out.extend_from_slice(&buf[..n]);
        Poll::Ready(Ok(n))
    }
}

struct Count(AtomicU64);

impl Wake for Count {
    fn wake(self: Arc<Self>) {
        self.0.fetch_add(1, Ordering::Relaxed);
    }
    fn wake_by_ref(self: &Arc<Self>) {
        self.0.fetch_add(1, Ordering::Relaxed);
    }
}

/// Polls `fut` until it is ready (re-polling after every Pending, woken or not) or the poll
/// budget runs out (`None`: the future spins or hangs).
pub fn drive<F: Future>(fut: F, max_polls: u64) -> Option<F::Output> {
    let mut fut = Box::pin(fut);
    let c = Arc::new(Count(AtomicU64::new(0)));
    let waker = Waker::from(c);
    let mut cx = Context::from_waker(&waker);
    for _ in 0..max_polls {
        if let Poll::Ready(v) = fut.as_mut().poll(&mut cx) {
            return Some(v);
        }
    }
    None
}
